package main

// Path-enumerating symbolic executor over go/ssa (NaiveForm).

import (
	"fmt"
	"go/constant"
	"go/token"
	"go/types"
	"math/big"
	"os"
	"os/exec"
	"path/filepath"
	"sort"
	"strings"

	"golang.org/x/tools/go/ssa"
)

type Obligation struct {
	Name       string
	Kind       string // post | pre | inv | nil | index | slice | div | assert | panic | typeassert | mapwrite | reach | lemma | frame
	Func       string
	Pos        token.Position
	PC         []*Term
	Goal       *Term
	Clause     *Clause
	Props      []string
	Path       []int
	Inputs     map[string]Value // named inputs for replay
	Result     SolveResult
	Query      string
	Static     bool // decided without solver
	StaticOK   bool
	Note       string
	altPCs     [][]*Term
	parts      []string
	views      []pcView // cheaper views of the path condition tried before the full one (fewer assumptions: sound)
	frameGoal  *Term    // quantifier-free sufficient condition (proof by framing), tried first
	frameQuery string
}

type pcView struct {
	label  string
	pc     []*Term
	budget int
	query  string
	parts  []string
}

type unsupported struct{ msg string }

type Verifier struct {
	inlineSubst         map[*types.TypeParam]types.Type // set by callFunc for the next inline()
	pendingFree         []freeBinding                   // captured variables of a closure about to be called under its contract
	e                   *Engine
	fn                  *ssa.Function
	fc                  *FuncContract
	key                 string
	obs                 []*Obligation
	paths               int
	ends                int
	counters            map[string]int
	unsup               []string
	reachRet            map[ssa.Instruction][][]*Term // return/backedge instruction -> path conditions reaching it
	inputs              map[string]Value
	entry               *State
	tooMany             bool
	obKeySeen           map[string]int
	callOrd             map[*ssa.Call]int
	callNames           map[*ssa.Call]string
	allCalls            []*ssa.Call
	pruneChecks, pruned int
	lazyRegs            bool
}

func (e *Engine) NewVerifier(fn *ssa.Function, fc *FuncContract) *Verifier {
	e.curFn = fn
	return &Verifier{e: e, fn: fn, fc: fc, key: funcKey(fn), counters: map[string]int{}, reachRet: map[ssa.Instruction][][]*Term{}, inputs: map[string]Value{}, obKeySeen: map[string]int{}}
}

func (v *Verifier) fail(format string, args ...any) {
	panic(unsupported{fmt.Sprintf(format, args...)})
}

func (v *Verifier) pos(p token.Pos) token.Position {
	return v.e.fset.Position(p)
}

// oblige records a proof obligation under the current path condition.
func (v *Verifier) oblige(st *State, kind, label string, goal *Term, p token.Pos, cl *Clause) {
	if goal.IsTrue() {
		// still count trivially true obligations for clause-level goals
		if cl == nil {
			return
		}
	}
	name := fmt.Sprintf("%s#%s[%s]", v.key, kind, label)
	// goals that are literally among the assumptions need no solver
	byAssumption := false
	if !goal.IsTrue() {
		byAssumption = true
		conj := []*Term{goal}
		if goal.op == "and" {
			conj = goal.args
		}
		for _, c := range conj {
			if !st.pcSet[c.String()] {
				byAssumption = false
				break
			}
		}
	}
	ob := &Obligation{Name: name, Kind: kind, Func: v.key, Pos: v.pos(p), PC: append([]*Term(nil), st.pc...), Goal: goal, Clause: cl, Path: append([]int(nil), st.path...), Inputs: v.inputs}
	if byAssumption {
		ob.Static, ob.StaticOK, ob.Note = true, true, "by assumption"
		ob.PC = nil
	} else if hasQuantifier(goal) {
		// the goal may be an earlier assumption carried over stores elsewhere: then a quantifier-free
		// frame condition suffices (tried first; the full goal remains as fallback)
		if side := tryFrame(st.pc, goal); side != nil {
			ob.frameGoal = side
		}
	}
	if v.fc != nil {
		ob.Props = v.fc.Props
	}
	if cl != nil && len(cl.Props) > 0 {
		ob.Props = cl.Props
	}
	if !byAssumption {
		filter := func(keep map[string]bool, all bool) []*Term {
			var out []*Term
			hidden := false
			for _, t := range ob.PC {
				if hasQuantifier(t) {
					tag, tagged := st.qtag[t.String()]
					if all || (tagged && !keep[tag]) {
						hidden = true
						continue
					}
				}
				out = append(out, t)
			}
			if !hidden {
				return nil
			}
			return out
		}
		toSet := func(xs []string) map[string]bool {
			m := map[string]bool{}
			for _, x := range xs {
				m[x] = true
			}
			return m
		}
		if cl != nil && len(cl.Using) > 0 {
			if pc := filter(toSet(cl.Using), false); pc != nil {
				ob.views = append(ob.views, pcView{label: "using", pc: pc})
			}
		} else {
			// most goals need no quantified fact at all: short quantifier-free attempt first
			if pc := filter(nil, true); pc != nil {
				ob.views = append(ob.views, pcView{label: "qf", pc: pc, budget: 2})
			}
			if cl != nil && cl.Label != "" && hasQuantifier(goal) {
				// quantified facts carrying the clause's own label (e.g. the same invariant assumed
				// earlier, or a callee's "inv-<label>" postcondition) usually suffice
				if pc := filter(toSet([]string{cl.Label, "inv-" + cl.Label, "append"}), false); pc != nil {
					ob.views = append(ob.views, pcView{label: "same-label", pc: pc})
				}
			}
			if v.fc != nil && len(v.fc.AutoUse) > 0 {
				if pc := filter(toSet(v.fc.AutoUse), false); pc != nil {
					ob.views = append(ob.views, pcView{label: "autouse", pc: pc})
				}
			}
		}
	}
	v.obs = append(v.obs, ob)
}

// ---------------------------------------------------------------------------
// running a function

func (v *Verifier) Run() (err error) {
	defer func() {
		if r := recover(); r != nil {
			if u, ok := r.(unsupported); ok {
				v.unsup = append(v.unsup, u.msg)
				err = nil
				return
			}
			if os.Getenv("GOVC_SWEEP") == "1" {
				v.unsup = append(v.unsup, fmt.Sprintf("internal: %v", r))
				err = nil
				return
			}
			panic(r)
		}
	}()
	fn := v.fn
	if len(fn.Blocks) == 0 {
		v.fail("function %s has no body", v.key)
	}
	v.e.registerAllocTypes(fn)
	st := &State{e: v.e, mem: map[Kind]*Term{}, maps: map[string]*Term{}, clos: map[string]*closureVal{}, held: map[string]*heldLock{}, nonnil: map[string]bool{}}
	st.next = v.e.sy.Fresh("next0", SInt)
	st.assume(Gt(st.next, IntLit(0)))
	fr := &Frame{fn: fn, regs: map[ssa.Value]Value{}, cells: map[*ssa.Alloc]Value{}, info: v.e.info(fn), entryParams: map[string]Value{}}
	st.frames = []*Frame{fr}
	for _, p := range fn.Params {
		val := st.freshValue("in_"+p.Name(), p.Type())
		fr.regs[p] = val
		fr.entryParams[p.Name()] = val
		v.inputs[p.Name()] = val
	}
	var fvBlks []*Term
	for fvi, fv := range fn.FreeVars {
		val := st.freshValue("fv_"+fv.Name(), fv.Type())
		immutable := isPointerShaped(fv.Type()) && len(val.L) == 2 && capturedVarImmutable(fv)
		if immutable {
			// a variable nobody assigns after its initialisation and whose address is used for nothing
			// but loads: it lives in a block of its own below every pointer value, so that no pointer
			// of the environment aliases it, and it keeps its contents across every havoc
			val = Value{T: fv.Type(), L: []*Term{IntLit(-6000000000 - int64(fvi)), IntLit(0)}}
			if st.frozen == nil {
				st.frozen = map[string]*Term{}
			}
			st.frozen[val.L[0].String()] = val.L[0]
		}
		fr.regs[fv] = val
		// captured variables are always valid pointers
		if isPointerShaped(fv.Type()) {
			st.assume(Neq(val.L[0], IntLit(0)))
			st.nonnil[val.L[0].String()] = true
		}
		v.inputs["fv:"+fv.Name()] = val
		// the body of a range-over-func loop: go/ssa guards it with a state variable that is 0 while
		// the loop is active; a well-behaved iterator calls the body only then (listed assumption)
		if fn.Synthetic == "range-over-func yield" && strings.HasPrefix(fv.Name(), "jump$") && len(val.L) == 2 {
			jv := st.loadAt(val.L[0], val.L[1], derefType(fv.Type()))
			if len(jv.L) == 1 {
				st.assume(Eq(jv.L[0], IntLit(0)))
			}
		}
		// a captured variable that is assigned once (its initialisation in the function declaring it)
		// and never again, by nobody, cannot change while this closure runs
		// every captured variable is its own heap allocation of its own type
		if isPointerShaped(fv.Type()) {
			st.assume(Eq(v.e.btype(val.L[0]), v.e.allocTypeID(derefType(fv.Type()))))
			st.assume(Eq(val.L[1], IntLit(0)))
			fvBlks = append(fvBlks, val.L[0])
			// captured variables are not read by any monitor invariant: writes to them keep critical sections clean
			if st.local == nil {
				st.local = map[string]bool{}
			}
			st.local[val.L[0].String()] = true
		}
	}
	if len(fvBlks) > 1 {
		st.assume(Distinct(fvBlks...))
	}
	if v.fc != nil && len(v.fc.GhostLocals) > 0 {
		st.glocals = map[string]Value{}
		for name, ts := range v.fc.GhostLocals {
			t, err := v.e.resolveType(ts, v.fc.PkgPath)
			if err != nil {
				v.fail("ghostlocal %s: %v", name, err)
			}
			st.glocals[name] = v.e.zeroValue(t)
		}
	}
	st.entry = st.snapshot()
	v.entry = st.entry
	// value invariants of the receiver's type hold on entry (they are checked wherever such a value
	// is turned into an interface value)
	if fn.Signature.Recv() != nil && len(fn.Params) > 0 {
		v.valueInvariants(st, fr.regs[fn.Params[0]], fn.Params[0].Type(), true, fn.Pos())
	}
	// development aid (GOVC_SWEEP=1, never used by the registered checks): a function without
	// contract is swept for panics under the assumption that its pointer, interface, map and
	// function parameters are non-nil
	if v.fc == nil && os.Getenv("GOVC_SWEEP") == "1" {
		for _, p := range fn.Params {
			pv := fr.regs[p]
			if pv.cell != nil || len(pv.L) == 0 {
				continue
			}
			switch p.Type().Underlying().(type) {
			case *types.Pointer, *types.Interface, *types.Map, *types.Signature, *types.Chan:
				st.assume(Not(Eq(pv.L[0], IntLit(0))))
			}
		}
	}
	// preconditions
	if v.fc != nil {
		env := v.entryEnv(st)
		for _, cl := range append(append([]*Clause{}, v.fc.Requires...), v.fc.Assumes...) {
			v.markHeld(st, env, cl.Expr)
			t := v.evalBool(st, env, cl)
			st.assumeTagged(t, cl.Label)
		}
		if len(st.held) > 0 {
			st.acq = st.snapshot()
		}
	}
	if v.fc != nil && v.fc.StartLoop > 0 {
		// verify the loop (all iterations, from an arbitrary state satisfying its invariant) and what
		// follows it; the code before the loop is not executed
		var li *LoopInfo
		for _, l := range fr.info.loopList {
			if l.Ordinal == v.fc.StartLoop {
				li = l
			}
		}
		if li == nil {
			v.fail("start_at_loop #%d: no such loop", v.fc.StartLoop)
		}
		v.lazyRegs = true
		for _, b := range fn.Blocks {
			if li.Blocks[b] {
				continue
			}
			for _, ins := range b.Instrs {
				if a, ok := ins.(*ssa.Alloc); ok && b.Dominates(li.Header) {
					elem := derefType(a.Type())
					if fr.info.cellable[a] {
						fr.cells[a] = st.freshValue("pre_"+a.Comment, elem)
						fr.regs[a] = Value{T: a.Type(), cell: &cellRef{alloc: a, off: 0, typ: elem}}
					} else {
						blk := st.allocTyped(elem)
						st.storeAt(blk, IntLit(0), st.freshValue("pre_"+a.Comment, elem))
						st.nonnil[blk.String()] = true
						fr.regs[a] = Value{T: a.Type(), L: []*Term{blk, IntLit(0)}}
					}
				}
			}
		}
		st.path = append(st.path, li.Header.Index)
		v.havocLoop(st, li)
		v.assumeLoopInv(st, li)
		if st.loopBasePending {
			st.loopBasePending = false
			st.loopBase = st.snapshot()
		}
		v.execFrom(st, li.Header, v.firstNonPhi(li.Header))
		return nil
	}
	v.enterBlock(st, nil, fn.Blocks[0])
	return nil
}

// entryEnv: names of parameters bound to entry values.
func (v *Verifier) entryEnv(st *State) *Env {
	env := &Env{v: v, vars: map[string]Value{}, pkgPath: v.pkgPath(), fnFrame: st.frames[0]}
	return env
}

func (v *Verifier) pkgPath() string {
	if v.fc != nil && v.fc.PkgPath != "" {
		return v.fc.PkgPath
	}
	root := v.fn
	for root.Parent() != nil {
		root = root.Parent()
	}
	if root.Pkg != nil {
		return relPkg(root.Pkg.Pkg.Path())
	}
	return ""
}

const maxPathsDefault = 20000

func (v *Verifier) enterBlock(st *State, from, to *ssa.BasicBlock) {
	fr := st.top()
	if fr.depth == 0 {
		st.path = append(st.path, to.Index)
	}
	// loop handling only in the function under verification
	if li := fr.info.loops[to]; li != nil {
		if fr.depth != 0 {
			v.fail("loop in inlined function %s", funcKey(fr.fn))
		}
		if from != nil && li.Blocks[from] {
			// back edge: invariant preserved
			v.evalPhis(st, from, to)
			v.checkBackedgeAts(st, li, to.Instrs[0].Pos())
			v.assertLoopInv(st, li, "preserved")
			v.endPath(st, to.Instrs[0], true)
			return
		}
		v.evalPhis(st, from, to)
		v.assertLoopInv(st, li, "entry")
		v.havocLoop(st, li)
		v.assumeLoopInv(st, li)
		if len(st.pendingHavoc) > 0 {
			for _, b := range st.pendingHavoc {
				st.havocBlock(b)
			}
			st.pendingHavoc = nil
			v.assumeLoopInv(st, li)
		}
		if st.loopBasePending {
			st.loopBasePending = false
			st.loopBase = st.snapshot()
		}
		v.execFrom(st, to, v.firstNonPhi(to))
		return
	}
	v.evalPhis(st, from, to)
	v.execFrom(st, to, v.firstNonPhi(to))
}

func (v *Verifier) firstNonPhi(b *ssa.BasicBlock) int {
	for i, ins := range b.Instrs {
		if _, ok := ins.(*ssa.Phi); !ok {
			return i
		}
	}
	return len(b.Instrs)
}

func (v *Verifier) evalPhis(st *State, from, to *ssa.BasicBlock) {
	if from == nil {
		return
	}
	fr := st.top()
	idx := -1
	for i, p := range to.Preds {
		if p == from {
			idx = i
			break
		}
	}
	var vals []Value
	var phis []*ssa.Phi
	for _, ins := range to.Instrs {
		phi, ok := ins.(*ssa.Phi)
		if !ok {
			break
		}
		phis = append(phis, phi)
		vals = append(vals, v.eval(st, phi.Edges[idx]))
	}
	for i, phi := range phis {
		fr.regs[phi] = vals[i]
	}
}

func (v *Verifier) endPath(st *State, at ssa.Instruction, reach bool) {
	v.ends++
	if reach && st.top().depth == 0 {
		if len(v.reachRet[at]) < 24 {
			v.reachRet[at] = append(v.reachRet[at], append([]*Term(nil), st.pc...))
		}
	}
}

func (v *Verifier) countPath() {
	v.paths++
	max := v.e.opts.MaxPaths
	if max == 0 {
		max = maxPathsDefault
	}
	if v.paths > max {
		v.fail("path limit %d exceeded", max)
	}
}

// ---------------------------------------------------------------------------
// values

func (v *Verifier) eval(st *State, x ssa.Value) Value {
	fr := st.top()
	if val, ok := fr.regs[x]; ok {
		return val
	}
	switch x := x.(type) {
	case *ssa.Const:
		return v.constValue(st, x)
	case *ssa.Global:
		return Value{T: x.Type(), L: []*Term{v.e.globalBlock(x), IntLit(0)}}
	case *ssa.Function:
		return Value{T: x.Type(), L: []*Term{v.e.funcID(x)}, clo: &closureVal{fn: x}}
	case *ssa.Builtin:
		return Value{T: x.Type(), L: []*Term{IntLit(-1)}}
	}
	if v.lazyRegs && fr.depth == 0 {
		// value computed in the skipped prefix: arbitrary
		val := st.freshValue("pre_"+x.Name(), x.Type())
		fr.regs[x] = val
		return val
	}
	v.fail("eval: no value for %s (%T) in %s", x.Name(), x, funcKey(fr.fn))
	return Value{}
}

func (v *Verifier) constValue(st *State, c *ssa.Const) Value {
	t := c.Type()
	if c.Value == nil {
		return v.e.zeroValue(t)
	}
	switch c.Value.Kind() {
	case constant.Bool:
		return Value{T: t, L: []*Term{BoolLit(constant.BoolVal(c.Value))}}
	case constant.Int:
		if b, ok := t.Underlying().(*types.Basic); ok && b.Info()&types.IsFloat != 0 {
			return Value{T: t, L: []*Term{v.e.sy.Named("real_"+sanitize(c.Value.ExactString()), SReal)}}
		}
		bi, ok := new(big.Int).SetString(c.Value.ExactString(), 10)
		if !ok {
			v.fail("bad int const %s", c.Value)
		}
		return Value{T: t, L: []*Term{BigLit(bi)}}
	case constant.String:
		return Value{T: t, L: []*Term{v.e.strLit(constant.StringVal(c.Value))}}
	case constant.Float:
		return Value{T: t, L: []*Term{v.e.sy.Named("real_"+sanitize(c.Value.ExactString()), SReal)}}
	}
	v.fail("unsupported constant %v", c)
	return Value{}
}

func (v *Verifier) setReg(st *State, x ssa.Value, val Value) {
	st.top().regs[x] = val
}

// ---------------------------------------------------------------------------
// no-panic helpers

func (v *Verifier) ordinal(kind, what string) string {
	k := kind + ":" + what
	v.counters[k]++
	return fmt.Sprintf("%s", what)
}

func (v *Verifier) checkNonNil(st *State, blk *Term, what string, p token.Pos) {
	if blk.op == "int" {
		if blk.ival.Sign() != 0 {
			return
		}
	}
	if st.nonnil[blk.String()] {
		return
	}
	v.oblige(st, "nil", what, Neq(blk, IntLit(0)), p, nil)
	st.assume(Neq(blk, IntLit(0)))
	st.nonnil[blk.String()] = true
}

// ---------------------------------------------------------------------------
// instruction execution

func (v *Verifier) execFrom(st *State, b *ssa.BasicBlock, idx int) {
	fr := st.top()
	for i := idx; i < len(b.Instrs); i++ {
		ins := b.Instrs[i]
		v.e.lay.subst = fr.subst
		switch ins := ins.(type) {
		case *ssa.DebugRef:
			continue
		case *ssa.Alloc:
			v.doAlloc(st, ins)
		case *ssa.Store:
			v.doStore(st, ins)
		case *ssa.UnOp:
			v.doUnOp(st, ins)
		case *ssa.BinOp:
			v.setReg(st, ins, v.binop(st, ins.Op, v.eval(st, ins.X), v.eval(st, ins.Y), ins.Type(), ins.Pos(), ins.X.Type()))
		case *ssa.FieldAddr:
			v.doFieldAddr(st, ins)
		case *ssa.Field:
			x := v.eval(st, ins.X)
			stt := ins.X.Type().Underlying().(*types.Struct)
			off := v.e.lay.FieldOff(stt, ins.Field)
			ft := stt.Field(ins.Field).Type()
			v.setReg(st, ins, x.sub(off, v.e.lay.Size(ft), ft))
		case *ssa.IndexAddr:
			v.doIndexAddr(st, ins)
		case *ssa.Index:
			v.doIndex(st, ins)
		case *ssa.Lookup:
			v.doLookup(st, ins)
		case *ssa.Slice:
			v.doSlice(st, ins)
		case *ssa.MakeSlice:
			v.doMakeSlice(st, ins)
		case *ssa.MakeMap:
			ref := st.allocBlock()
			mt := ins.Type().Underlying().(*types.Map)
			v.mapInitEmpty(st, mt, ref)
			v.setReg(st, ins, Value{T: ins.Type(), L: []*Term{ref}})
		case *ssa.MakeChan:
			ref := st.allocBlock()
			v.setReg(st, ins, Value{T: ins.Type(), L: []*Term{ref}})
		case *ssa.MakeInterface:
			v.setReg(st, ins, v.makeInterface(st, v.eval(st, ins.X), ins.X.Type(), ins.Type(), ins.Pos()))
		case *ssa.MakeClosure:
			v.doMakeClosure(st, ins)
		case *ssa.ChangeType:
			x := v.eval(st, ins.X)
			x.T = ins.Type()
			v.setReg(st, ins, x)
		case *ssa.ChangeInterface:
			x := v.eval(st, ins.X)
			x.T = ins.Type()
			v.setReg(st, ins, x)
		case *ssa.Convert:
			v.setReg(st, ins, v.convert(st, v.eval(st, ins.X), ins.X.Type(), ins.Type(), ins.Pos()))
		case *ssa.MultiConvert:
			v.fail("MultiConvert unsupported")
		case *ssa.SliceToArrayPointer:
			v.fail("SliceToArrayPointer unsupported")
		case *ssa.Extract:
			tup := v.eval(st, ins.Tuple)
			tt := ins.Tuple.Type().(*types.Tuple)
			off := 0
			for j := 0; j < ins.Index; j++ {
				off += v.e.lay.Size(tt.At(j).Type())
			}
			et := tt.At(ins.Index).Type()
			if off+v.e.lay.Size(et) > len(tup.L) {
				v.fail("extract #%d of %s: tuple value has %d slots, type %s needs %d (in %s, subst %v)", ins.Index, ins.Tuple.Name(), len(tup.L), tt, off+v.e.lay.Size(et), funcKey(fr.fn), fr.subst)
			}
			val := tup.sub(off, v.e.lay.Size(et), et)
			if tup.it != nil {
				val.it = tup.it
			}
			v.setReg(st, ins, val)
		case *ssa.TypeAssert:
			v.doTypeAssert(st, ins)
		case *ssa.MapUpdate:
			v.doMapUpdate(st, ins)
		case *ssa.Range:
			v.doRange(st, ins)
		case *ssa.Next:
			v.doNext(st, ins)
		case *ssa.Send:
			// abstract event: no effect on the sender's state
			_ = v.eval(st, ins.Chan)
			v.escapeValue(st, v.eval(st, ins.X))
		case *ssa.Select:
			v.doSelect(st, ins)
		case *ssa.Go:
			v.doGo(st, ins)
		case *ssa.Defer:
			d := deferred{call: &ins.Call, pos: ins}
			d.fn, d.args = v.evalCallOperands(st, &ins.Call)
			fr.defers = append(fr.defers, d)
		case *ssa.RunDefers:
			ii := i
			v.runDefers(st, func(st2 *State) { v.execFrom(st2, b, ii+1) })
			return
		case *ssa.Call:
			ii := i
			cins := ins
			if fr.depth == 0 {
				v.checkAts(st, ins)
			}
			v.doCall(st, &ins.Call, ins, func(st2 *State, res Value) {
				st2.top().regs[cins] = res
				if st2.top().depth == 0 {
					v.assumeAfterCall(st2, cins, res)
				}
				v.execFrom(st2, b, ii+1)
			})
			return
		case *ssa.If:
			cond := v.eval(st, ins.Cond).L[0]
			switch {
			case cond.IsTrue():
				v.enterBlock(st, b, b.Succs[0])
			case cond.IsFalse():
				v.enterBlock(st, b, b.Succs[1])
			default:
				// prune branches whose path condition is already contradictory (quantifier-free check)
				okT, okF := true, true
				if v.paths >= 2 {
					okT = v.feasible(st, cond)
					if okT {
						okF = v.feasible(st, Not(cond))
					}
				}
				switch {
				case okT && okF:
					v.countPath()
					st2 := st.clone()
					st.assume(cond)
					st2.assume(Not(cond))
					v.enterBlock(st, b, b.Succs[0])
					v.enterBlock(st2, b, b.Succs[1])
				case okT:
					st.assume(cond)
					v.enterBlock(st, b, b.Succs[0])
				default:
					st.assume(Not(cond))
					v.enterBlock(st, b, b.Succs[1])
				}
			}
			return
		case *ssa.Jump:
			v.enterBlock(st, b, b.Succs[0])
			return
		case *ssa.Return:
			v.doReturn(st, ins)
			return
		case *ssa.Panic:
			v.doPanic(st, ins)
			return
		case *ssa.Phi:
			// handled on block entry
		default:
			v.fail("unsupported instruction %T: %s", ins, ins)
		}
	}
}

func (v *Verifier) doAlloc(st *State, a *ssa.Alloc) {
	fr := st.top()
	elem := derefType(a.Type())
	if fr.info.cellable[a] {
		fr.cells[a] = v.e.zeroValue(elem)
		fr.regs[a] = Value{T: a.Type(), cell: &cellRef{alloc: a, off: 0, typ: elem}}
		return
	}
	blk := st.allocTyped(elem)
	st.storeAt(blk, IntLit(0), v.e.zeroValue(elem))
	st.nonnil[blk.String()] = true
	if st.private == nil {
		st.private = map[string]*Term{}
	}
	st.private[blk.String()] = blk
	fr.regs[a] = Value{T: a.Type(), L: []*Term{blk, IntLit(0)}}
}

func (v *Verifier) doStore(st *State, s *ssa.Store) {
	addr := v.eval(st, s.Addr)
	val := v.eval(st, s.Val)
	v.storeThrough(st, addr, val, s.Pos(), s.Addr)
}

func (v *Verifier) storeThrough(st *State, addr, val Value, p token.Pos, addrExpr ssa.Value) {
	if val.cell != nil {
		v.fail("storing a cell pointer")
	}
	if addr.cell == nil {
		// a pointer written to memory may be read back by anyone who can reach that memory
		st.escape(val)
	}
	if addr.cell != nil {
		fr := v.cellFrame(st, addr.cell.alloc)
		cur := fr.cells[addr.cell.alloc]
		nl := append([]*Term(nil), cur.L...)
		copy(nl[addr.cell.off:], val.L)
		fr.cells[addr.cell.alloc] = Value{T: cur.T, L: nl}
		// remember closure annotations for function-typed cells
		if val.clo != nil {
			st.clos[val.L[0].String()] = val.clo
		}
		return
	}
	if val.clo != nil {
		st.clos[val.L[0].String()] = val.clo
	}
	v.checkNonNil(st, addr.L[0], "store "+describe(addrExpr), p)
	v.checkGuard(st, addrExpr, p)
	v.checkFrame(st, addr, val, p, addrExpr)
	st.storeAt(addr.L[0], addr.L[1], val)
}

func (v *Verifier) cellFrame(st *State, a *ssa.Alloc) *Frame {
	for i := len(st.frames) - 1; i >= 0; i-- {
		if _, ok := st.frames[i].cells[a]; ok {
			return st.frames[i]
		}
	}
	v.fail("cell %s not found", a.Name())
	return nil
}

func describe(x ssa.Value) string {
	if x == nil {
		return "?"
	}
	switch x := x.(type) {
	case *ssa.FieldAddr:
		st := derefType(x.X.Type()).Underlying().(*types.Struct)
		return describe(x.X) + "." + st.Field(x.Field).Name()
	case *ssa.Field:
		st := x.X.Type().Underlying().(*types.Struct)
		return describe(x.X) + "." + st.Field(x.Field).Name()
	case *ssa.IndexAddr:
		return describe(x.X) + "[" + describe(x.Index) + "]"
	case *ssa.Index:
		return describe(x.X) + "[" + describe(x.Index) + "]"
	case *ssa.UnOp:
		if x.Op == token.MUL {
			if a, ok := x.X.(*ssa.Alloc); ok && a.Comment != "" {
				return a.Comment
			}
			if fv, ok := x.X.(*ssa.FreeVar); ok {
				return fv.Name()
			}
			return "*" + describe(x.X)
		}
		return x.Op.String() + describe(x.X)
	case *ssa.Alloc:
		if x.Comment != "" {
			return "&" + x.Comment
		}
		return "new"
	case *ssa.Parameter:
		return x.Name()
	case *ssa.FreeVar:
		return x.Name()
	case *ssa.Const:
		if x.Value == nil {
			return "nil"
		}
		return x.Value.String()
	case *ssa.Call:
		return callName(&x.Call) + "()"
	case *ssa.Extract:
		return describe(x.Tuple) + fmt.Sprintf("#%d", x.Index)
	case *ssa.Global:
		return x.Name()
	case *ssa.Slice:
		return describe(x.X) + "[:]"
	case *ssa.Lookup:
		return describe(x.X) + "[" + describe(x.Index) + "]"
	case *ssa.TypeAssert:
		return describe(x.X) + ".(" + types.TypeString(x.AssertedType, func(p *types.Package) string { return p.Name() }) + ")"
	case *ssa.ChangeType:
		return describe(x.X)
	case *ssa.Convert:
		return describe(x.X)
	case *ssa.MakeInterface:
		return describe(x.X)
	case *ssa.BinOp:
		return describe(x.X) + x.Op.String() + describe(x.Y)
	case *ssa.Phi:
		if x.Comment != "" {
			return x.Comment
		}
	}
	return x.Name()
}

func callName(c *ssa.CallCommon) string {
	if c.IsInvoke() {
		return describe(c.Value) + "." + c.Method.Name()
	}
	if f := c.StaticCallee(); f != nil {
		n := f.Name()
		if f.Signature.Recv() != nil && len(c.Args) > 0 {
			return describe(c.Args[0]) + "." + n
		}
		if f.Pkg != nil && f.Parent() == nil {
			return f.Pkg.Pkg.Name() + "." + n
		}
		return n
	}
	if b, ok := c.Value.(*ssa.Builtin); ok {
		return b.Name()
	}
	return describe(c.Value)
}

func (v *Verifier) loadThrough(st *State, addr Value, t types.Type, p token.Pos, addrExpr ssa.Value) Value {
	if addr.cell != nil {
		fr := v.cellFrame(st, addr.cell.alloc)
		cur := fr.cells[addr.cell.alloc]
		n := v.e.lay.Size(t)
		val := Value{T: t, L: cur.L[addr.cell.off : addr.cell.off+n]}
		v.annotate(st, &val)
		return val
	}
	v.checkNonNil(st, addr.L[0], "load "+describe(addrExpr), p)
	v.checkGuard(st, addrExpr, p)
	val := st.loadAt(addr.L[0], addr.L[1], t)
	v.annotate(st, &val)
	return val
}

// annotate restores Go-side closure info for function-typed values.
func (v *Verifier) annotate(st *State, val *Value) {
	if _, ok := val.T.Underlying().(*types.Signature); ok && len(val.L) == 1 {
		if c, ok := st.clos[val.L[0].String()]; ok {
			val.clo = c
		} else if iv, ok := val.L[0].IsInt(); ok {
			if fn := v.e.fnByID[iv.Int64()]; fn != nil {
				val.clo = &closureVal{fn: fn}
			}
		}
	}
}

func (v *Verifier) doUnOp(st *State, u *ssa.UnOp) {
	x := v.eval(st, u.X)
	switch u.Op {
	case token.MUL:
		v.setReg(st, u, v.loadThrough(st, x, u.Type(), u.Pos(), u.X))
	case token.NOT:
		v.setReg(st, u, Value{T: u.Type(), L: []*Term{Not(x.L[0])}})
	case token.SUB:
		if x.L[0].sort != SInt {
			v.setReg(st, u, st.freshValue("fneg", u.Type()))
			return
		}
		r := Value{T: u.Type(), L: []*Term{Neg(x.L[0])}}
		v.setReg(st, u, v.wrapInt(st, r))
	case token.XOR:
		r := Value{T: u.Type(), L: []*Term{v.e.sy.App("bitnot", SInt, x.L[0])}}
		st.assumeWF(r)
		v.setReg(st, u, r)
	case token.ARROW:
		// channel receive: arbitrary value of the element type
		var res Value
		if u.CommaOk {
			res = st.freshValue("recv", u.Type())
		} else {
			res = st.freshValue("recv", u.Type())
		}
		if ct, ok := u.X.Type().Underlying().(*types.Chan); ok {
			v.assumeReceived(st, res.sub(0, v.e.lay.Size(ct.Elem()), ct.Elem()), ct.Elem())
		}
		v.setReg(st, u, res)
	default:
		v.fail("unsupported unary op %s", u.Op)
	}
}

// wrapInt: arithmetic is mathematical; results are assumed to be in range
// (overflow is an explicit, listed assumption).
func (v *Verifier) wrapInt(st *State, r Value) Value {
	if r.L[0].op == "int" {
		return r
	}
	if b, ok := r.T.Underlying().(*types.Basic); ok {
		if lo, hi, ok := intRange(b); ok {
			d := st.define("ar", r.L[0])
			st.assume(Le(BigLit(lo), d))
			st.assume(Le(d, BigLit(hi)))
			return Value{T: r.T, L: []*Term{d}}
		}
	}
	return r
}

func isString(t types.Type) bool {
	b, ok := t.Underlying().(*types.Basic)
	return ok && b.Info()&types.IsString != 0
}

func isIntType(t types.Type) bool {
	b, ok := t.Underlying().(*types.Basic)
	return ok && b.Info()&types.IsInteger != 0
}

func isUnsigned(t types.Type) bool {
	b, ok := t.Underlying().(*types.Basic)
	return ok && b.Info()&types.IsUnsigned != 0
}

func (v *Verifier) binop(st *State, op token.Token, x, y Value, rt types.Type, p token.Pos, xt types.Type) Value {
	e := v.e
	b1 := func(t *Term) Value { return Value{T: rt, L: []*Term{t}} }
	switch op {
	case token.EQL, token.NEQ:
		eq := v.valuesEqual(st, x, y, xt)
		if op == token.NEQ {
			eq = Not(eq)
		}
		return b1(eq)
	}
	if isString(xt) {
		switch op {
		case token.ADD:
			r := e.sy.App("str_cat", SStr, x.L[0], y.L[0])
			st.assume(Eq(e.strLen(r), Add(e.strLen(x.L[0]), e.strLen(y.L[0]))))
			return b1(r)
		case token.LSS:
			return b1(e.strLt(x.L[0], y.L[0]))
		case token.GTR:
			return b1(e.strLt(y.L[0], x.L[0]))
		case token.LEQ:
			return b1(Not(e.strLt(y.L[0], x.L[0])))
		case token.GEQ:
			return b1(Not(e.strLt(x.L[0], y.L[0])))
		}
	}
	if x.L[0].sort == SBool {
		switch op {
		case token.AND, token.LAND:
			return b1(And(x.L[0], y.L[0]))
		case token.OR, token.LOR:
			return b1(Or(x.L[0], y.L[0]))
		}
	}
	if x.L[0].sort == SReal {
		// floats are opaque
		return st.freshValue("flt", rt)
	}
	a, b := x.L[0], y.L[0]
	switch op {
	case token.ADD:
		return v.wrapInt(st, b1(Add(a, b)))
	case token.SUB:
		return v.wrapInt(st, b1(Sub(a, b)))
	case token.MUL:
		return v.wrapInt(st, b1(Mul(a, b)))
	case token.QUO, token.REM:
		v.oblige(st, "div", "divisor of "+op.String(), Neq(b, IntLit(0)), p, nil)
		st.assume(Neq(b, IntLit(0)))
		// Go truncated division/remainder, stated through SMT div/mod on the operands themselves so
		// that the terms (mod a b) / (div a b) appear literally (quantified invariants mention them)
		var r *Term
		if av, ok := a.IsInt(); ok {
			if bv, ok2 := b.IsInt(); ok2 && bv.Sign() != 0 {
				q, m := new(big.Int).QuoRem(av, bv, new(big.Int))
				if op == token.REM {
					return b1(BigLit(m))
				}
				return b1(BigLit(q))
			}
		}
		if op == token.REM {
			r = v.e.sy.Fresh("rem", SInt)
			nb := Neg(b)
			st.assume(Implies(And(Ge(a, IntLit(0)), Gt(b, IntLit(0))), Eq(r, mk("mod", SInt, a, b))))
			st.assume(Implies(And(Lt(a, IntLit(0)), Gt(b, IntLit(0))), Eq(r, Neg(mk("mod", SInt, Neg(a), b)))))
			st.assume(Implies(And(Ge(a, IntLit(0)), Lt(b, IntLit(0))), Eq(r, mk("mod", SInt, a, nb))))
			st.assume(Implies(And(Lt(a, IntLit(0)), Lt(b, IntLit(0))), Eq(r, Neg(mk("mod", SInt, Neg(a), nb)))))
		} else {
			r = v.e.sy.Fresh("quo", SInt)
			nb := Neg(b)
			st.assume(Implies(And(Ge(a, IntLit(0)), Gt(b, IntLit(0))), Eq(r, mk("div", SInt, a, b))))
			st.assume(Implies(And(Lt(a, IntLit(0)), Gt(b, IntLit(0))), Eq(r, Neg(mk("div", SInt, Neg(a), b)))))
			st.assume(Implies(And(Ge(a, IntLit(0)), Lt(b, IntLit(0))), Eq(r, Neg(mk("div", SInt, a, nb)))))
			st.assume(Implies(And(Lt(a, IntLit(0)), Lt(b, IntLit(0))), Eq(r, mk("div", SInt, Neg(a), nb))))
		}
		return v.wrapInt(st, b1(r))
	case token.LSS:
		return b1(Lt(a, b))
	case token.LEQ:
		return b1(Le(a, b))
	case token.GTR:
		return b1(Gt(a, b))
	case token.GEQ:
		return b1(Ge(a, b))
	case token.SHL:
		if bv, ok := b.IsInt(); ok && bv.IsInt64() && bv.Int64() < 63 && !(bv.Sign() < 0) {
			r := Mul(a, BigLit(new(big.Int).Lsh(bigOne, uint(bv.Int64()))))
			return v.wrapInt(st, b1(r))
		}
	case token.SHR:
		if bv, ok := b.IsInt(); ok && bv.IsInt64() && bv.Int64() < 63 && !(bv.Sign() < 0) {
			r := SDiv(a, BigLit(new(big.Int).Lsh(bigOne, uint(bv.Int64()))))
			return b1(r)
		}
	case token.AND:
		// x & (2^k - 1) == x mod 2^k for non-negative x
		if bv, ok := b.IsInt(); ok {
			m := new(big.Int).Add(bv, bigOne)
			if m.BitLen() > 0 && new(big.Int).And(m, bv).Sign() == 0 && isUnsigned(xt) {
				return b1(SMod(a, BigLit(m)))
			}
		}
	}
	// uninterpreted bit operations
	r := b1(e.sy.App("bitop_"+sanitize(op.String()), SInt, a, b))
	st.assumeWF(r)
	return r
}

// strLt: the lexicographic order on strings is a countable total order, so it embeds into the reals;
// str_rank is such an (uninterpreted, injective) embedding. Irreflexivity, transitivity and totality
// then come from real arithmetic instead of quantified axioms (which made e-matching explode).
func (e *Engine) strLt(a, b *Term) *Term {
	return mk("<", SBool, e.sy.App("str_rank", SReal, a), e.sy.App("str_rank", SReal, b))
}

// valuesEqual: Go == on values of static type t.
func (v *Verifier) valuesEqual(st *State, x, y Value, t types.Type) *Term {
	if x.cell != nil || y.cell != nil {
		v.fail("comparison of cell pointers")
	}
	if _, isTP := t.(*types.TypeParam); isTP && len(x.L) != 3 {
		var cs []*Term
		for i := range x.L {
			cs = append(cs, Eq(x.L[i], y.L[i]))
		}
		return And(cs...)
	}
	switch t.Underlying().(type) {
	case *types.Interface:
		// comparing with a nil literal or pointer-shaped payloads: leafwise.
		return And(Eq(x.L[0], y.L[0]), Eq(x.L[1], y.L[1]), Eq(x.L[2], y.L[2]))
	case *types.Slice, *types.Map, *types.Signature, *types.Chan:
		return Eq(x.L[0], y.L[0])
	}
	var cs []*Term
	for i := range x.L {
		cs = append(cs, Eq(x.L[i], y.L[i]))
	}
	return And(cs...)
}

func (v *Verifier) convert(st *State, x Value, from, to types.Type, p token.Pos) Value {
	fu, tu := from.Underlying(), to.Underlying()
	fb, fok := fu.(*types.Basic)
	tb, tok := tu.(*types.Basic)
	if fok && tok {
		switch {
		case fb.Info()&types.IsInteger != 0 && tb.Info()&types.IsInteger != 0:
			flo, fhi, ok1 := intRange(fb)
			tlo, thi, ok2 := intRange(tb)
			if !ok1 || !ok2 {
				return Value{T: to, L: x.L}
			}
			if flo.Cmp(tlo) >= 0 && fhi.Cmp(thi) <= 0 {
				return Value{T: to, L: x.L}
			}
			if lv, ok := x.L[0].IsInt(); ok && lv.Cmp(tlo) >= 0 && lv.Cmp(thi) <= 0 {
				return Value{T: to, L: x.L}
			}
			// exact two's complement wrap: ((x - lo) mod 2^n) + lo
			size := new(big.Int).Add(new(big.Int).Sub(thi, tlo), bigOne)
			if flo.Cmp(new(big.Int).Sub(tlo, size)) >= 0 && fhi.Cmp(new(big.Int).Add(thi, size)) <= 0 {
				// source range within one period of the target: linear form
				w := Ite(Lt(x.L[0], BigLit(tlo)), Add(x.L[0], BigLit(size)), Ite(Gt(x.L[0], BigLit(thi)), Sub(x.L[0], BigLit(size)), x.L[0]))
				return Value{T: to, L: []*Term{st.define("cv", w)}}
			}
			w := Add(SMod(Sub(x.L[0], BigLit(tlo)), BigLit(size)), BigLit(tlo))
			return Value{T: to, L: []*Term{st.define("cv", w)}}
		case fb.Info()&types.IsString != 0 && tb.Info()&types.IsString != 0:
			return Value{T: to, L: x.L}
		case fb.Info()&types.IsInteger != 0 && tb.Info()&types.IsString != 0:
			r := v.e.sy.App("str_of_rune", SStr, x.L[0])
			return Value{T: to, L: []*Term{r}}
		case tb.Info()&types.IsFloat != 0 || fb.Info()&types.IsFloat != 0:
			return st.freshValue("fconv", to)
		case fb.Kind() == types.UnsafePointer || tb.Kind() == types.UnsafePointer:
			return Value{T: to, L: x.L}
		}
	}
	// string <-> []byte / []rune
	if fok && fb.Info()&types.IsString != 0 {
		if _, ok := tu.(*types.Slice); ok {
			blk := st.allocBlock()
			n := v.e.strLen(x.L[0])
			st.assume(Ge(n, IntLit(0)))
			// contents: bytes of the string
			i := v.e.sy.Fresh("i", SInt)
			inner := Select(st.memOf(KY), blk)
			st.assume(Forall([]*Term{i}, Implies(And(Ge(i, IntLit(0)), Lt(i, n)), Eq(mk("select", SInt, inner, i), v.e.sy.App("str_at", SInt, x.L[0], i)))))
			return Value{T: to, L: []*Term{blk, IntLit(0), n, n}}
		}
	}
	if tok && tb.Info()&types.IsString != 0 {
		if _, ok := fu.(*types.Slice); ok {
			inner := Select(st.memOf(KY), x.L[0])
			r := v.e.sy.App("str_of_bytes", SStr, inner, x.L[1], x.L[2])
			st.assume(Eq(v.e.strLen(r), x.L[2]))
			return Value{T: to, L: []*Term{r}}
		}
	}
	if _, ok := fu.(*types.Pointer); ok {
		return Value{T: to, L: x.L}
	}
	if _, ok := fu.(*types.Slice); ok {
		if _, ok := tu.(*types.Slice); ok {
			return Value{T: to, L: x.L}
		}
	}
	v.fail("unsupported conversion %v -> %v", from, to)
	return Value{}
}

func (v *Verifier) doFieldAddr(st *State, fa *ssa.FieldAddr) {
	x := v.eval(st, fa.X)
	stt := derefType(fa.X.Type()).Underlying().(*types.Struct)
	off := v.e.lay.FieldOff(stt, fa.Field)
	ft := stt.Field(fa.Field).Type()
	if x.cell != nil {
		v.setReg(st, fa, Value{T: fa.Type(), cell: &cellRef{alloc: x.cell.alloc, off: x.cell.off + off, typ: ft}})
		return
	}
	v.checkNonNil(st, x.L[0], "field "+describe(fa), fa.Pos())
	v.setReg(st, fa, Value{T: fa.Type(), L: []*Term{x.L[0], Add(x.L[1], IntLit(int64(off)))}})
}

func (v *Verifier) doIndexAddr(st *State, ia *ssa.IndexAddr) {
	x := v.eval(st, ia.X)
	idx := v.eval(st, ia.Index).L[0]
	switch xt := ia.X.Type().Underlying().(type) {
	case *types.Slice:
		es := v.e.lay.Size(xt.Elem())
		v.oblige(st, "index", describe(ia), And(Ge(idx, IntLit(0)), Lt(idx, x.L[2])), ia.Pos(), nil)
		st.assume(And(Ge(idx, IntLit(0)), Lt(idx, x.L[2])))
		// in-range index implies non-nil base
		st.assume(Neq(x.L[0], IntLit(0)))
		st.nonnil[x.L[0].String()] = true
		off := Add(x.L[1], strideOf(idx, int64(es)))
		v.setReg(st, ia, Value{T: ia.Type(), L: []*Term{x.L[0], off}})
	case *types.Pointer:
		at := xt.Elem().Underlying().(*types.Array)
		es := v.e.lay.Size(at.Elem())
		v.oblige(st, "index", describe(ia), And(Ge(idx, IntLit(0)), Lt(idx, IntLit(at.Len()))), ia.Pos(), nil)
		st.assume(And(Ge(idx, IntLit(0)), Lt(idx, IntLit(at.Len()))))
		if x.cell != nil {
			iv, ok := idx.IsInt()
			if !ok {
				v.fail("symbolic index into cell array")
			}
			v.setReg(st, ia, Value{T: ia.Type(), cell: &cellRef{alloc: x.cell.alloc, off: x.cell.off + int(iv.Int64())*es, typ: at.Elem()}})
			return
		}
		v.checkNonNil(st, x.L[0], "index "+describe(ia), ia.Pos())
		off := Add(x.L[1], strideOf(idx, int64(es)))
		v.setReg(st, ia, Value{T: ia.Type(), L: []*Term{x.L[0], off}})
	default:
		v.fail("IndexAddr on %v", ia.X.Type())
	}
}

func (v *Verifier) doIndex(st *State, ix *ssa.Index) {
	x := v.eval(st, ix.X)
	idx := v.eval(st, ix.Index).L[0]
	switch xt := ix.X.Type().Underlying().(type) {
	case *types.Array:
		es := v.e.lay.Size(xt.Elem())
		iv, ok := idx.IsInt()
		if !ok {
			// small array value indexed symbolically: bounds obligation, then a case split per element
			if xt.Len() > 16 {
				v.fail("symbolic index into a large array value")
			}
			inb := And(Ge(idx, IntLit(0)), Lt(idx, IntLit(xt.Len())))
			v.oblige(st, "index", describe(ix), inb, ix.Pos(), nil)
			st.assume(inb)
			res := x.sub(int(xt.Len()-1)*es, es, xt.Elem())
			out := Value{T: xt.Elem(), L: append([]*Term(nil), res.L...)}
			for j := xt.Len() - 2; j >= 0; j-- {
				el := x.sub(int(j)*es, es, xt.Elem())
				for k := range out.L {
					out.L[k] = Ite(Eq(idx, IntLit(j)), el.L[k], out.L[k])
				}
			}
			v.setReg(st, ix, out)
			return
		}
		v.setReg(st, ix, x.sub(int(iv.Int64())*es, es, xt.Elem()))
	case *types.Basic: // string
		n := v.e.strLen(x.L[0])
		v.oblige(st, "index", describe(ix), And(Ge(idx, IntLit(0)), Lt(idx, n)), ix.Pos(), nil)
		st.assume(And(Ge(idx, IntLit(0)), Lt(idx, n)))
		r := Value{T: ix.Type(), L: []*Term{v.e.sy.App("str_at", SInt, x.L[0], idx)}}
		st.assumeWF(r)
		v.setReg(st, ix, r)
	default:
		v.fail("Index on %v", ix.X.Type())
	}
}

func (v *Verifier) doSlice(st *State, s *ssa.Slice) {
	x := v.eval(st, s.X)
	var lo, hi, max *Term
	if s.Low != nil {
		lo = v.eval(st, s.Low).L[0]
	} else {
		lo = IntLit(0)
	}
	if s.High != nil {
		hi = v.eval(st, s.High).L[0]
	}
	if s.Max != nil {
		max = v.eval(st, s.Max).L[0]
	}
	switch xt := s.X.Type().Underlying().(type) {
	case *types.Slice:
		es := v.e.lay.Size(xt.Elem())
		if hi == nil {
			hi = x.L[2]
		}
		capT := x.L[3]
		if max == nil {
			max = capT
		}
		goal := And(Le(IntLit(0), lo), Le(lo, hi), Le(hi, max), Le(max, capT))
		v.oblige(st, "slice", describe(s.X)+"["+descOpt(s.Low)+":"+descOpt(s.High)+"]", goal, s.Pos(), nil)
		st.assume(goal)
		res := Value{T: s.Type(), L: []*Term{x.L[0], Add(x.L[1], strideOf(lo, int64(es))), Sub(hi, lo), Sub(max, lo)}}
		v.setReg(st, s, res)
	case *types.Basic: // string
		n := v.e.strLen(x.L[0])
		if hi == nil {
			hi = n
		}
		goal := And(Le(IntLit(0), lo), Le(lo, hi), Le(hi, n))
		v.oblige(st, "slice", describe(s.X)+"["+descOpt(s.Low)+":"+descOpt(s.High)+"]", goal, s.Pos(), nil)
		st.assume(goal)
		r := v.e.sy.App("str_sub", SStr, x.L[0], lo, hi)
		st.assume(Eq(v.e.strLen(r), Sub(hi, lo)))
		v.setReg(st, s, Value{T: s.Type(), L: []*Term{r}})
	case *types.Pointer: // pointer to array
		at := xt.Elem().Underlying().(*types.Array)
		es := v.e.lay.Size(at.Elem())
		n := IntLit(at.Len())
		if hi == nil {
			hi = n
		}
		if max == nil {
			max = n
		}
		goal := And(Le(IntLit(0), lo), Le(lo, hi), Le(hi, max), Le(max, n))
		v.oblige(st, "slice", describe(s.X)+"["+descOpt(s.Low)+":"+descOpt(s.High)+"]", goal, s.Pos(), nil)
		st.assume(goal)
		if x.cell != nil {
			v.fail("slicing a cell array")
		}
		v.checkNonNil(st, x.L[0], "slice "+describe(s.X), s.Pos())
		res := Value{T: s.Type(), L: []*Term{x.L[0], Add(x.L[1], strideOf(lo, int64(es))), Sub(hi, lo), Sub(max, lo)}}
		v.setReg(st, s, res)
	default:
		v.fail("Slice on %v", s.X.Type())
	}
}

func descOpt(x ssa.Value) string {
	if x == nil {
		return ""
	}
	return describe(x)
}

func (v *Verifier) doMakeSlice(st *State, m *ssa.MakeSlice) {
	n := v.eval(st, m.Len).L[0]
	c := v.eval(st, m.Cap).L[0]
	v.oblige(st, "slice", "make len/cap", And(Le(IntLit(0), n), Le(n, c)), m.Pos(), nil)
	st.assume(And(Le(IntLit(0), n), Le(n, c)))
	elem := m.Type().Underlying().(*types.Slice).Elem()
	blk := st.allocTyped(types.NewSlice(elem))
	v.zeroBlock(st, blk, elem)
	st.nonnil[blk.String()] = true
	v.setReg(st, m, Value{T: m.Type(), L: []*Term{blk, IntLit(0), n, c}})
}

// zeroBlock sets every slot of a fresh block to the zero value of elem's kinds.
func (v *Verifier) zeroBlock(st *State, blk *Term, elem types.Type) {
	lay := v.e.lay.Of(elem)
	kinds := map[Kind]bool{}
	for _, sl := range lay {
		kinds[sl.K] = true
	}
	for _, k := range []Kind{KI, KB, KS, KY} {
		if !kinds[k] {
			continue
		}
		z := ConstArray(ArraySort(SInt, k.Sort()), v.e.zeroLeaf(Slot{K: k}))
		st.mem[k] = st.define("M"+k.String(), Store(st.memOf(k), blk, z))
	}
}

func (v *Verifier) makeInterface(st *State, x Value, from, to types.Type, ipos token.Pos) Value {
	tid := IntLit(int64(v.e.typeID(from)))
	if x.cell != nil {
		v.fail("cell pointer converted to interface")
	}
	v.escapeValue(st, x)
	v.valueInvariants(st, x, from, false, ipos)
	if _, isIface := from.Underlying().(*types.Interface); isIface {
		return Value{T: to, L: x.L}
	}
	if isPointerShaped(from) {
		return Value{T: to, L: []*Term{tid, x.L[0], x.L[1]}}
	}
	// box
	blk := st.allocBlock()
	st.storeAt(blk, IntLit(0), Value{T: from, L: x.L})
	st.nonnil[blk.String()] = true
	res := Value{T: to, L: []*Term{tid, blk, IntLit(0)}}
	if x.clo != nil {
		st.clos[x.L[0].String()] = x.clo
	}
	return res
}

func (v *Verifier) doMakeClosure(st *State, mc *ssa.MakeClosure) {
	fn := mc.Fn.(*ssa.Function)
	ref := st.allocBlock()
	cv := &closureVal{fn: fn}
	for _, b := range mc.Bindings {
		bv := v.eval(st, b)
		cv.bindings = append(cv.bindings, bv)
	}
	if fn.Parent() == nil || true {
		// captured variables stay private while the closure itself is only called locally;
		// they escape when the closure value does (see escapeClosure)
	}
	st.clos[ref.String()] = cv
	v.setReg(st, mc, Value{T: mc.Type(), L: []*Term{ref}, clo: cv})
}

func (e *Engine) implementsTerm(st *State, tid *Term, iface *types.Interface, name string) *Term {
	if iv, ok := tid.IsInt(); ok {
		t := e.tidType[int(iv.Int64())]
		if t == nil {
			return TFalse
		}
		return BoolLit(types.Implements(t, iface))
	}
	fname := "impl_" + sanitize(name)
	app := e.sy.App(fname, SBool, tid)
	// facts for all known concrete types
	var ids []int
	for id := range e.tidType {
		ids = append(ids, id)
	}
	sort.Ints(ids)
	for _, id := range ids {
		fact := e.sy.App(fname, SBool, IntLit(int64(id)))
		if types.Implements(e.tidType[id], iface) {
			st.assume(fact)
		} else {
			st.assume(Not(fact))
		}
	}
	st.assume(Not(e.sy.App(fname, SBool, IntLit(0))))
	return app
}

func (v *Verifier) doTypeAssert(st *State, ta *ssa.TypeAssert) {
	x := v.eval(st, ta.X)
	tid := x.L[0]
	var ok *Term
	var res Value
	at := ta.AssertedType
	if iface, isIface := at.Underlying().(*types.Interface); isIface {
		ok = v.e.implementsTerm(st, tid, iface, types.TypeString(at, nil))
		if iface.NumMethods() == 0 {
			ok = Neq(tid, IntLit(0))
		}
		res = Value{T: at, L: x.L}
	} else {
		want := IntLit(int64(v.e.typeID(at)))
		ok = Eq(tid, want)
		if isPointerShaped(at) {
			res = Value{T: at, L: []*Term{x.L[1], x.L[2]}}
		} else {
			// unbox: only meaningful when ok
			res = st.loadAt(x.L[1], x.L[2], at)
			v.annotate(st, &res)
		}
	}
	if ta.CommaOk {
		// value is zero when !ok
		z := v.e.zeroValue(at)
		out := Value{T: ta.Type(), L: make([]*Term, 0, len(res.L)+1)}
		okc := st.define("taok", ok)
		for i := range res.L {
			out.L = append(out.L, Ite(okc, res.L[i], z.L[i]))
		}
		out.L = append(out.L, okc)
		v.setReg(st, ta, out)
		return
	}
	v.oblige(st, "typeassert", describe(ta), ok, ta.Pos(), nil)
	st.assume(ok)
	v.setReg(st, ta, res)
}

func (v *Verifier) doSelect(st *State, s *ssa.Select) {
	// result tuple: (index int, recvOk bool, r_0 ... r_{n-1})
	res := st.freshValue("select", s.Type())
	idx := res.L[0]
	lo := int64(0)
	if !s.Blocking {
		lo = -1
	}
	st.assume(And(Ge(idx, IntLit(lo)), Lt(idx, IntLit(int64(len(s.States))))))
	for i, cs := range s.States {
		// a case on a nil channel is never chosen
		if ch := v.eval(st, cs.Chan); ch.cell == nil && len(ch.L) == 1 {
			st.assume(Implies(Eq(idx, IntLit(int64(i))), Not(Eq(ch.L[0], IntLit(0)))))
		}
		if cs.Dir == types.SendOnly && cs.Send != nil {
			v.escapeValue(st, v.eval(st, cs.Send))
		}
	}
	// received values: result tuple slots 2.. in the order of the receive cases
	off := 2
	for _, cs := range s.States {
		if cs.Dir != types.RecvOnly {
			continue
		}
		if ct, ok := cs.Chan.Type().Underlying().(*types.Chan); ok {
			n := v.e.lay.Size(ct.Elem())
			if off+n <= len(res.L) {
				v.assumeReceived(st, res.sub(off, n, ct.Elem()), ct.Elem())
			}
			off += n
		}
	}
	v.setReg(st, s, res)
}

// assumeReceived: "assume_received" clauses of a type contract are assumptions about every value of
// that type that arrives over a channel (listed in the evidence).
func (v *Verifier) assumeReceived(st *State, val Value, t types.Type) {
	named, ok := t.(*types.Named)
	if !ok || val.cell != nil {
		return
	}
	tc := v.e.ct.Types[typeKey(named)]
	if tc == nil || len(tc.Received) == 0 {
		return
	}
	env := &Env{v: v, vars: map[string]Value{"self": val}, pkgPath: tc.PkgPath, old: st.entry}
	for _, cl := range tc.Received {
		st.assumeTagged(v.evalBoolIn(st, env, cl), cl.Label)
	}
}

func (v *Verifier) doGo(st *State, g *ssa.Go) {
	// The spawned function runs at an unknown later time; nothing is concluded
	// about it here. If it carries a contract its precondition is a call-site
	// obligation.
	fnv, args := v.evalCallOperands(st, &g.Call)
	v.escapeValue(st, fnv)
	for _, a := range args {
		v.escapeValue(st, a)
	}
	var fn *ssa.Function
	if fnv.clo != nil {
		fn = fnv.clo.fn
	}
	if fn == nil {
		return
	}
	if fc := v.e.ct.Funcs[funcKey(fn)]; fc != nil && len(fc.Requires) > 0 {
		env := v.calleeEnv(st, fn, fc, fnv, args)
		for i, cl := range fc.Requires {
			t := v.evalBoolIn(st, env, cl)
			v.oblige(st, "pre", fmt.Sprintf("go %s:%s", shortKey(funcKey(fn)), clauseLabel(cl, i)), t, g.Pos(), cl)
		}
	}
}

func shortKey(k string) string {
	if i := strings.LastIndex(k, "/"); i >= 0 {
		return k[i+1:]
	}
	return k
}

func clauseLabel(cl *Clause, i int) string {
	if cl.Label != "" {
		return cl.Label
	}
	return fmt.Sprintf("%d", i+1)
}

func (v *Verifier) doPanic(st *State, p *ssa.Panic) {
	if v.fc != nil && v.fc.MayPanic {
		v.endPath(st, p, false)
		return
	}
	v.oblige(st, "panic", "explicit panic unreachable", TFalse, p.Pos(), nil)
	v.endPath(st, p, false)
}

func (v *Verifier) doReturn(st *State, r *ssa.Return) {
	fr := st.top()
	var res Value
	rt := fr.fn.Signature.Results()
	res.T = resultType(fr.fn.Signature)
	for _, x := range r.Results {
		xv := v.eval(st, x)
		if xv.cell != nil {
			v.fail("returning cell pointer")
		}
		res.L = append(res.L, xv.L...)
		v.escapeValue(st, xv)
		if xv.clo != nil && rt.Len() == 1 {
			res.clo = xv.clo
		}
	}
	if fr.depth > 0 {
		// inlined callee: continue in caller
		if os.Getenv("GOVC_DEBUG_INLINE") != "" {
			fmt.Fprintf(os.Stderr, "   return from %s: %d slots, subst=%v laysubst=%v\n", funcKey(fr.fn), len(res.L), fr.subst, v.e.lay.subst)
			for _, x := range r.Results {
				xv := v.eval(st, x)
				fmt.Fprintf(os.Stderr, "      %s : %s = %d slots\n", x.Name(), x.Type(), len(xv.L))
			}
		}
		cont := fr.ret
		st.frames = st.frames[:len(st.frames)-1]
		cont(st, res)
		return
	}
	v.checkPost(st, r, res)
	v.endPath(st, r, true)
}

// markHeld: a top-level conjunct held(mu) in a requires clause of the function
// under proof establishes that the lock is held at entry.
func (v *Verifier) markHeld(st *State, env *Env, e CExpr) {
	switch e := e.(type) {
	case CBinary:
		if e.Op == "&&" {
			v.markHeld(st, env, e.X)
			v.markHeld(st, env, e.Y)
		}
	case CCall:
		if e.Fun == "held" && len(e.Args) == 1 {
			func() {
				defer func() {
					if r := recover(); r != nil {
						if _, ok := r.(cevalError); ok {
							return
						}
						panic(r)
					}
				}()
				env.fnFrame = st.frames[0]
				loc := env.loc(st, e.Args[0])
				st.held[lockKey(Value{L: []*Term{loc.blk, loc.off}})] = &heldLock{loc.blk, loc.off}
			}()
		}
	}
}

// callOrdinals numbers the calls of the function under proof per callee name, in source order.
func (v *Verifier) callOrdinal(c *ssa.Call) (string, int) {
	if v.callOrd == nil {
		v.callOrd = map[*ssa.Call]int{}
		v.callNames = map[*ssa.Call]string{}
		type ent struct {
			c    *ssa.Call
			name string
		}
		var all []ent
		for _, b := range v.fn.Blocks {
			for _, ins := range b.Instrs {
				if c, ok := ins.(*ssa.Call); ok {
					name := ""
					if c.Call.IsInvoke() {
						name = c.Call.Method.Name()
					} else if f := c.Call.StaticCallee(); f != nil {
						name = funcKey(f)
					} else {
						name = describe(c.Call.Value)
					}
					all = append(all, ent{c, name})
				}
			}
		}
		sort.SliceStable(all, func(i, j int) bool { return all[i].c.Pos() < all[j].c.Pos() })
		for _, e := range all {
			v.callNames[e.c] = e.name
		}
		v.allCalls = nil
		for _, e := range all {
			v.allCalls = append(v.allCalls, e.c)
		}
	}
	return v.callNames[c], 0
}

func (v *Verifier) checkAts(st *State, c *ssa.Call) {
	if v.fc == nil || len(v.fc.Ats) == 0 {
		return
	}
	name, _ := v.callOrdinal(c)
	for _, ab := range v.fc.Ats {
		if !atMatches(name, ab.Callee) {
			continue
		}
		// ordinal among calls matching this at-block's callee substring
		n := 0
		match := false
		for _, oc := range v.allCalls {
			if atMatches(v.callNames[oc], ab.Callee) {
				n++
				if oc == c {
					match = n == ab.Ordinal
					break
				}
			}
		}
		if !match {
			continue
		}
		ab.seen = true
		env := v.loopEnv(st)
		// callarg0, callarg1, ...: the arguments of the call (receiver of an interface call excluded)
		for i, a := range c.Call.Args {
			if av, ok := v.tryEval(st, a); ok && av.cell == nil {
				env.vars[fmt.Sprintf("callarg%d", i)] = av
			}
		}
		// callrecv: the receiver of an interface method call
		if c.Call.IsInvoke() {
			if rv, ok := v.tryEval(st, c.Call.Value); ok && rv.cell == nil {
				env.vars["callrecv"] = rv
			}
		}
		for _, cl := range ab.AssumesHere {
			st.assumeTagged(v.evalBoolIn(st, env, cl), cl.Label)
		}
		for i, cl := range ab.Asserts {
			t := v.evalBoolIn(st, env, cl)
			v.oblige(st, "assert", fmt.Sprintf("at %s#%d:%s", ab.Callee, ab.Ordinal, clauseLabel(cl, i)), t, c.Pos(), cl)
			st.assumeTagged(t, cl.Label)
		}
		for _, ga := range ab.Ghosts {
			v.ghostAssign(st, env, ga)
		}
	}
}

// checkBackedgeAts: "at backedge #n" blocks hold assertions about the iteration that just ended
// (they may name variables declared inside the loop body, which a loop invariant cannot); they are
// proved on every back edge of loop n.
func (v *Verifier) checkBackedgeAts(st *State, li *LoopInfo, pos token.Pos) {
	if v.fc == nil {
		return
	}
	for _, ab := range v.fc.Ats {
		if ab.Callee != "backedge" || ab.Ordinal != li.Ordinal {
			continue
		}
		ab.seen = true
		env := v.loopEnv(st)
		for i, cl := range ab.Asserts {
			t := v.evalBoolIn(st, env, cl)
			v.oblige(st, "assert", fmt.Sprintf("at backedge#%d:%s", ab.Ordinal, clauseLabel(cl, i)), t, pos, cl)
			st.assumeTagged(t, cl.Label)
		}
		for _, ga := range ab.Ghosts {
			v.ghostAssign(st, env, ga)
		}
	}
}

// escapeValue: the value leaves the invocation (call argument, interface, return, send ...).
// Closures take their captured variables with them.
func (v *Verifier) escapeValue(st *State, val Value) {
	st.escape(val)
	if val.clo != nil {
		v.escapeClosure(st, val.clo, 0)
	} else if len(val.L) == 1 {
		if c, ok := st.clos[val.L[0].String()]; ok {
			v.escapeClosure(st, c, 0)
		}
	}
}

// escapeClosure: the variables a closure captures become reachable from outside. A captured
// variable that the closure (and the closures nested in it) only ever loads keeps its cell private
// - nobody else can write it - and only the value it holds escapes.
func (v *Verifier) escapeClosure(st *State, c *closureVal, depth int) {
	for i, b := range c.bindings {
		if depth < 4 && i < len(c.fn.FreeVars) && b.cell == nil && len(b.L) == 2 && freeVarReadOnly(c.fn.FreeVars[i], 0) {
			if pt, ok := c.fn.FreeVars[i].Type().Underlying().(*types.Pointer); ok {
				if _, priv := st.private[b.L[0].String()]; priv {
					inner := st.loadAt(b.L[0], b.L[1], pt.Elem())
					st.escape(inner)
					if len(inner.L) == 1 {
						if ic, ok := st.clos[inner.L[0].String()]; ok && ic != c {
							v.escapeClosure(st, ic, depth+1)
						}
					}
					continue
				}
			}
		}
		st.escape(b)
	}
}

// capturedVarImmutable: the variable behind fv (followed up to its declaration in an enclosing
// function) is stored to exactly once there, and every closure capturing it only loads it. Its address
// is never used in any other way, so no code - in particular no callee - can assign it.
func capturedVarImmutable(fv *ssa.FreeVar) bool {
	var root ssa.Value = fv
	for depth := 0; depth < 8; depth++ {
		f, ok := root.(*ssa.FreeVar)
		if !ok {
			break
		}
		fn := f.Parent()
		if fn == nil || fn.Parent() == nil {
			return false
		}
		idx := -1
		for i, x := range fn.FreeVars {
			if x == f {
				idx = i
			}
		}
		if idx < 0 {
			return false
		}
		var next ssa.Value
		for _, b := range fn.Parent().Blocks {
			for _, ins := range b.Instrs {
				if mc, ok := ins.(*ssa.MakeClosure); ok && mc.Fn == ssa.Value(fn) && idx < len(mc.Bindings) {
					if next != nil && next != mc.Bindings[idx] {
						return false
					}
					next = mc.Bindings[idx]
				}
			}
		}
		if next == nil {
			return false
		}
		root = next
	}
	a, ok := root.(*ssa.Alloc)
	if !ok || a.Referrers() == nil {
		return false
	}
	stores := 0
	for _, r := range *a.Referrers() {
		switch r := r.(type) {
		case *ssa.Store:
			if r.Addr != ssa.Value(a) || r.Val == ssa.Value(a) {
				return false
			}
			stores++
		case *ssa.UnOp:
			if r.Op != token.MUL {
				return false
			}
		case *ssa.DebugRef:
		case *ssa.MakeClosure:
			fn, ok := r.Fn.(*ssa.Function)
			if !ok {
				return false
			}
			for i, b := range r.Bindings {
				if b == ssa.Value(a) {
					if i >= len(fn.FreeVars) || !freeVarReadOnly(fn.FreeVars[i], 0) {
						return false
					}
				}
			}
		default:
			return false
		}
	}
	return stores <= 1
}

// freeVarReadOnly: every use of the captured variable is a load (or the capture by a nested
// closure that itself only loads it).
func freeVarReadOnly(fv *ssa.FreeVar, depth int) bool {
	if depth > 4 || fv.Referrers() == nil {
		return false
	}
	for _, r := range *fv.Referrers() {
		switch r := r.(type) {
		case *ssa.UnOp:
			if r.Op != token.MUL {
				return false
			}
		case *ssa.DebugRef:
		case *ssa.MakeClosure:
			fn, ok := r.Fn.(*ssa.Function)
			if !ok {
				return false
			}
			for j, bv := range r.Bindings {
				if bv == ssa.Value(fv) {
					if j >= len(fn.FreeVars) || !freeVarReadOnly(fn.FreeVars[j], depth+1) {
						return false
					}
				}
			}
		default:
			return false
		}
	}
	return true
}

// valueInvariants asserts (or assumes) the declared invariants of a value type and of the struct
// types embedded in it by value. Types with guarded_by clauses are monitors and handled at lock
// operations instead.
func (v *Verifier) valueInvariants(st *State, val Value, t types.Type, assume bool, p token.Pos) {
	if val.cell != nil {
		return
	}
	base := t
	if pt, ok := t.Underlying().(*types.Pointer); ok {
		base = pt.Elem()
	}
	named, ok := base.(*types.Named)
	if !ok {
		return
	}
	stt, isStruct := named.Underlying().(*types.Struct)
	if tc := v.e.ct.Types[typeKey(named)]; tc != nil && len(tc.GuardedBy) == 0 && len(tc.Invariant) > 0 {
		env := &Env{v: v, vars: map[string]Value{"self": val}, pkgPath: tc.PkgPath, old: st.entry}
		for i, cl := range tc.Invariant {
			tm := v.evalBoolIn(st, env, cl)
			if assume {
				st.assumeTagged(tm, cl.Label)
			} else {
				v.oblige(st, "inv", fmt.Sprintf("%s:%s@interface-conversion", named.Obj().Name(), clauseLabel(cl, i)), tm, p, cl)
			}
		}
	}
	if !isStruct || isPointerShaped(t) {
		return
	}
	for i := 0; i < stt.NumFields(); i++ {
		f := stt.Field(i)
		if !f.Embedded() {
			continue
		}
		if _, isPtr := f.Type().Underlying().(*types.Pointer); isPtr {
			continue
		}
		off := v.e.lay.FieldOff(stt, i)
		n := v.e.lay.Size(f.Type())
		v.valueInvariants(st, val.sub(off, n, f.Type()), f.Type(), assume, p)
	}
}

// feasible: false only if the quantifier-free part of the path condition together with cond is
// unsatisfiable (so the branch can be skipped: every obligation on it would hold vacuously).
func (v *Verifier) feasible(st *State, cond *Term) bool {
	var pc []*Term
	for _, t := range st.pc {
		if !hasQuantifier(t) {
			pc = append(pc, t)
		}
	}
	pc = append(pc, cond)
	q := v.e.sy.Query(v.e.stringAxiomsFor(pc), pc, nil, false)
	v.pruneChecks++
	file := filepath.Join(v.e.opts.WorkDir, fmt.Sprintf("feas_%d.smt2", v.pruneChecks))
	if err := os.WriteFile(file, []byte(q), 0o644); err != nil {
		return true
	}
	out, _ := exec.Command("z3", "-T:1", file).Output()
	if !v.e.opts.Keep {
		os.Remove(file)
	}
	if strings.HasPrefix(string(out), "unsat") {
		v.pruned++
		return false
	}
	return true
}

// assumeAfterCall: "at <callee> #n / assume_result" clauses state assumptions about what a call
// through an uncontracted function value returns (listed as assumptions in the evidence).
func (v *Verifier) assumeAfterCall(st *State, c *ssa.Call, res Value) {
	if v.fc == nil || len(v.fc.Ats) == 0 {
		return
	}
	name, _ := v.callOrdinal(c)
	for _, ab := range v.fc.Ats {
		if (len(ab.Assumes) == 0 && len(ab.GhostsAfter) == 0) || !atMatches(name, ab.Callee) {
			continue
		}
		n := 0
		match := false
		for _, oc := range v.allCalls {
			if atMatches(v.callNames[oc], ab.Callee) {
				n++
				if oc == c {
					match = n == ab.Ordinal
					break
				}
			}
		}
		if !match {
			continue
		}
		ab.seen = true
		env := v.loopEnv(st)
		v.bindResults(env, c.Call.Signature(), nil, res)
		for _, cl := range ab.Assumes {
			st.assumeTagged(v.evalBoolIn(st, env, cl), cl.Label)
		}
		for _, ga := range ab.GhostsAfter {
			v.ghostAssign(st, env, ga)
		}
	}
}

// atMatches: does the call named name (method name of an interface call, function key of a static
// call, description of a function value) match the callee pattern of an "at" block? A pattern
// without a dot names the function or method itself (so "Err" does not match zap.Error or
// fmt.Errorf); a pattern with a dot is matched as a substring (receiver-qualified: "c.cipher").
func atMatches(name, callee string) bool {
	if strings.ContainsAny(callee, "./") {
		return strings.Contains(name, callee)
	}
	if i := strings.Index(name, "["); i >= 0 && strings.HasSuffix(name, "]") && !strings.Contains(name[i:], ").") {
		name = name[:i] // instantiated generic function: pkg.F[T]
	}
	return name == callee || strings.HasSuffix(name, "."+callee)
}
