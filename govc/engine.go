package main

// Engine: loads /repo with go/packages + go/ssa, indexes functions, resolves types,
// finds contract files.

import (
	"fmt"
	"go/token"
	"go/types"
	"os"
	"path/filepath"
	"sort"
	"strings"

	"golang.org/x/tools/go/packages"
	"golang.org/x/tools/go/ssa"
	"golang.org/x/tools/go/ssa/ssautil"
)

const modulePath = "github.com/cosi-project/runtime"

type Engine struct {
	curFn        *ssa.Function // function under verification: its type parameters can be named in contract types
	calleeFn     *ssa.Function // while a callee\'s contract is applied at a call site: its type parameters stand for the type arguments of the call
	repo         string
	fset         *token.FileSet
	prog         *ssa.Program
	pkgs         []*packages.Package
	pkgByPath    map[string]*packages.Package
	spkgs        map[string]*ssa.Package
	lay          *Layouts
	sy           *Symbols
	ct           *Contracts
	funcs        map[string]*ssa.Function // canonical key -> function
	tids         map[string]int           // dynamic type ids
	tidType      map[int]types.Type
	globals      map[*ssa.Global]int64
	fnIDs        map[*ssa.Function]int64
	fnByID       map[int64]*ssa.Function
	strLits      map[string]*Term
	strOrder     []string
	infos        map[*ssa.Function]*FuncInfo
	axioms       []*Term
	opts         Options
	ghostGlobals map[string]int64
	warnings     []string
	epochs       int
	tu           *typeUniverse
	withLemmas   bool
	pureBody     map[*ssa.Function]bool
	cache        *proofCache
	verifDir     string
	localChecks  int
}

type Options struct {
	TimeoutS int
	Verbose  bool
	WorkDir  string
	MaxPaths int
	Jobs     int
	Overflow bool
	Keep     bool
}

func LoadEngine(repo string, patterns []string, opts Options) (*Engine, error) {
	e := &Engine{
		repo: repo, lay: NewLayouts(), sy: NewSymbols(), ct: NewContracts(),
		funcs: map[string]*ssa.Function{}, tids: map[string]int{}, tidType: map[int]types.Type{},
		globals: map[*ssa.Global]int64{}, fnIDs: map[*ssa.Function]int64{}, fnByID: map[int64]*ssa.Function{},
		strLits: map[string]*Term{}, infos: map[*ssa.Function]*FuncInfo{}, opts: opts,
		pkgByPath: map[string]*packages.Package{}, pureBody: map[*ssa.Function]bool{}, spkgs: map[string]*ssa.Package{}, ghostGlobals: map[string]int64{},
	}
	e.fset = token.NewFileSet()
	cfg := &packages.Config{
		Mode:       packages.LoadAllSyntax | packages.NeedTypesInfo,
		Dir:        repo,
		Fset:       e.fset,
		BuildFlags: []string{"-tags=verif"},
		Env:        append(os.Environ(), "GOFLAGS=-mod=mod", "GOPROXY=off", "GOSUMDB=off", "GOTOOLCHAIN=local", "PATH=/opt/veriftools/go1.26.8/bin:"+os.Getenv("PATH")),
	}
	pkgs, err := packages.Load(cfg, patterns...)
	if err != nil {
		return nil, err
	}
	var errs []string
	packages.Visit(pkgs, nil, func(p *packages.Package) {
		if strings.HasPrefix(p.PkgPath, modulePath) {
			for _, e := range p.Errors {
				errs = append(errs, e.Error())
			}
		}
	})
	if len(errs) > 0 {
		return nil, fmt.Errorf("package errors:\n%s", strings.Join(errs, "\n"))
	}
	e.pkgs = pkgs
	prog, _ := ssautil.AllPackages(pkgs, ssa.NaiveForm|ssa.GlobalDebug)
	prog.Build()
	e.prog = prog
	packages.Visit(pkgs, nil, func(p *packages.Package) {
		e.pkgByPath[p.PkgPath] = p
	})
	for _, sp := range prog.AllPackages() {
		e.spkgs[sp.Pkg.Path()] = sp
	}
	e.indexFunctions()
	return e, nil
}

func relPkg(path string) string {
	if path == modulePath {
		return "."
	}
	return strings.TrimPrefix(path, modulePath+"/")
}

// funcKey returns the canonical contract key of a function.
func funcKey(fn *ssa.Function) string {
	if o := fn.Origin(); o != nil {
		fn = o
	}
	root := fn
	for root.Parent() != nil {
		root = root.Parent()
	}
	var pkg *types.Package
	if root.Pkg != nil {
		pkg = root.Pkg.Pkg
	} else if root.Object() != nil {
		pkg = root.Object().Pkg()
	}
	if pkg == nil {
		return fn.String()
	}
	return relPkg(pkg.Path()) + "." + fn.RelString(pkg)
}

func (e *Engine) indexFunctions() {
	var add func(fn *ssa.Function)
	add = func(fn *ssa.Function) {
		if fn == nil {
			return
		}
		k := funcKey(fn)
		if _, ok := e.funcs[k]; ok {
			return
		}
		e.funcs[k] = fn
		for _, an := range fn.AnonFuncs {
			add(an)
		}
	}
	for _, sp := range e.prog.AllPackages() {
		for _, m := range sp.Members {
			switch m := m.(type) {
			case *ssa.Function:
				add(m)
			case *ssa.Type:
				t := m.Type()
				if n, ok := t.(*types.Named); ok {
					for i := 0; i < n.NumMethods(); i++ {
						add(e.prog.FuncValue(n.Method(i)))
					}
				}
			}
		}
	}
}

// lookupFunc finds a function by contract key (with or without module-relative path).
func (e *Engine) lookupFunc(key string) *ssa.Function {
	if f, ok := e.funcs[key]; ok {
		return f
	}
	return nil
}

// loadContracts reads zz_contracts_verif.go from every loaded repo package and
// extern specs from externDir.
func (e *Engine) loadContracts(externDir string) error {
	var paths []string
	for path, p := range e.pkgByPath {
		if !strings.HasPrefix(path, modulePath) {
			continue
		}
		_ = p
		paths = append(paths, path)
	}
	sort.Strings(paths)
	for _, path := range paths {
		p := e.pkgByPath[path]
		dir := ""
		if len(p.GoFiles) > 0 {
			dir = filepath.Dir(p.GoFiles[0])
		}
		if dir == "" {
			continue
		}
		f := filepath.Join(dir, "zz_contracts_verif.go")
		if _, err := os.Stat(f); err == nil {
			if err := e.ct.LoadFile(f, relPkg(path), false); err != nil {
				return err
			}
		}
	}
	if externDir != "" {
		files, _ := filepath.Glob(filepath.Join(externDir, "*.spec"))
		sort.Strings(files)
		for _, f := range files {
			if err := e.ct.LoadFile(f, "", true); err != nil {
				return err
			}
		}
	}
	return nil
}

// loadAxioms evaluates axiom clauses of the contract files into background formulas.
func (e *Engine) loadAxioms() error {
	v := &Verifier{e: e, counters: map[string]int{}, key: "axioms"}
	st := &State{e: e, mem: map[Kind]*Term{}, maps: map[string]*Term{}, clos: map[string]*closureVal{}, held: map[string]*heldLock{}, nonnil: map[string]bool{}}
	st.next = IntLit(1)
	var err error
	func() {
		defer func() {
			if r := recover(); r != nil {
				if u, ok := r.(unsupported); ok {
					err = fmt.Errorf("%s", u.msg)
					return
				}
				panic(r)
			}
		}()
		for _, l := range e.ct.Lemmas {
			if !l.Axiom {
				continue
			}
			env := &Env{v: v, vars: map[string]Value{}, pkgPath: l.PkgPath}
			e.axioms = append(e.axioms, v.evalBoolIn(st, env, l.Clause))
		}
	}()
	return err
}

// ---------------------------------------------------------------------------
// ids

func (e *Engine) typeID(t types.Type) int {
	k := types.TypeString(t, nil)
	if id, ok := e.tids[k]; ok {
		return id
	}
	// stable across runs and independent of the order in which types are met (proof cache keys)
	id := int(hashString("tid:"+k)%1000000000) + 1
	for e.tidType[id] != nil {
		id++
	}
	e.tids[k] = id
	e.tidType[id] = t
	return id
}

func (e *Engine) globalBlock(g *ssa.Global) *Term {
	id, ok := e.globals[g]
	if !ok {
		id = -int64(hashString("global:"+g.String())%1000000000) - 1000
		e.globals[g] = id
	}
	return IntLit(id)
}

func (e *Engine) ghostBlock(name string) *Term {
	id, ok := e.ghostGlobals[name]
	if !ok {
		id = -int64(hashString("ghost:"+name)%1000000000) - 4000000000 // ghost blocks live below every pointer value
		e.ghostGlobals[name] = id
	}
	return IntLit(id)
}

func (e *Engine) funcID(fn *ssa.Function) *Term {
	id, ok := e.fnIDs[fn]
	if !ok {
		id = -int64(hashString("fn:"+fn.String())%1000000000) - 2000000000
		for e.fnByID[id] != nil {
			id--
		}
		e.fnIDs[fn] = id
		e.fnByID[id] = fn
	}
	return IntLit(id)
}

func (e *Engine) strLit(s string) *Term {
	if t, ok := e.strLits[s]; ok {
		return t
	}
	name := fmt.Sprintf("str_%x_%s", hashString(s)%0xffffff, sanitize(truncate(s, 24)))
	if s == "" {
		name = "str_empty"
	}
	t := e.sy.Named(name, SStr)
	e.strLits[s] = t
	e.strOrder = append(e.strOrder, s)
	return t
}

func truncate(s string, n int) string {
	if len(s) > n {
		return s[:n]
	}
	return s
}

// background axioms about strings: literals distinct, lengths, total order skeleton.
func (e *Engine) stringAxioms(used map[string]bool) []*Term {
	var lits []*Term
	var out []*Term
	order := append([]string(nil), e.strOrder...)
	sort.Strings(order)
	for _, s := range order {
		t := e.strLits[s]
		if !used[t.name] {
			continue
		}
		lits = append(lits, t)
		out = append(out, Eq(e.strLen(t), IntLit(int64(len(s)))))
	}
	if len(lits) > 1 {
		out = append(out, Distinct(lits...))
	}
	return out
}

func (e *Engine) strLen(s *Term) *Term { return e.sy.App("str_len", SInt, s) }

// ---------------------------------------------------------------------------
// type resolution for contract type expressions

func (e *Engine) resolveType(expr string, pkgPath string) (types.Type, error) {
	expr = strings.TrimSpace(expr)
	switch {
	case strings.HasPrefix(expr, "*"):
		t, err := e.resolveType(expr[1:], pkgPath)
		if err != nil {
			return nil, err
		}
		return types.NewPointer(t), nil
	case strings.HasPrefix(expr, "[]"):
		t, err := e.resolveType(expr[2:], pkgPath)
		if err != nil {
			return nil, err
		}
		return types.NewSlice(t), nil
	case strings.HasPrefix(expr, "map["):
		depth := 0
		for i := 3; i < len(expr); i++ {
			switch expr[i] {
			case '[':
				depth++
			case ']':
				depth--
				if depth == 0 {
					k, err := e.resolveType(expr[4:i], pkgPath)
					if err != nil {
						return nil, err
					}
					v, err := e.resolveType(expr[i+1:], pkgPath)
					if err != nil {
						return nil, err
					}
					return types.NewMap(k, v), nil
				}
			}
		}
		return nil, fmt.Errorf("bad map type %q", expr)
	}
	switch expr {
	case "int":
		return types.Typ[types.Int], nil
	case "int64":
		return types.Typ[types.Int64], nil
	case "int32":
		return types.Typ[types.Int32], nil
	case "uint64":
		return types.Typ[types.Uint64], nil
	case "byte", "uint8":
		return types.Typ[types.Uint8], nil
	case "bool":
		return types.Typ[types.Bool], nil
	case "string":
		return types.Typ[types.String], nil
	case "error":
		return types.Universe.Lookup("error").Type(), nil
	case "any":
		return types.Universe.Lookup("any").Type(), nil
	case "mathint":
		return types.Typ[types.UntypedInt], nil
	}
	// a type parameter of the callee whose contract is being applied: the type argument of this call
	if cf := e.calleeFn; cf != nil {
		gen := cf
		if o := cf.Origin(); o != nil {
			gen = o
		}
		targs := cf.TypeArgs()
		for _, tps := range []*types.TypeParamList{gen.Signature.RecvTypeParams(), gen.Signature.TypeParams()} {
			for i := 0; tps != nil && i < tps.Len(); i++ {
				if tps.At(i).Obj().Name() == expr {
					if i < len(targs) {
						return targs[i], nil
					}
					return tps.At(i), nil
				}
			}
		}
	}
	// a type parameter of the function under verification (or of the functions enclosing it)
	for f := e.curFn; f != nil; f = f.Parent() {
		for _, tps := range []*types.TypeParamList{f.Signature.RecvTypeParams(), f.Signature.TypeParams()} {
			for i := 0; tps != nil && i < tps.Len(); i++ {
				if tps.At(i).Obj().Name() == expr {
					return tps.At(i), nil
				}
			}
		}
	}
	// qualified or local name
	pkgName, name := "", expr
	if i := strings.LastIndex(expr, "."); i >= 0 {
		pkgName, name = expr[:i], expr[i+1:]
	}
	full := pkgPath
	if full != "" && !strings.HasPrefix(full, modulePath) && full != "." {
		full = modulePath + "/" + full
	}
	if full == "." {
		full = modulePath
	}
	if pkgName == "" {
		p := e.pkgByPath[full]
		if p == nil {
			return nil, fmt.Errorf("unknown package %q for type %q", full, expr)
		}
		obj := p.Types.Scope().Lookup(name)
		if obj == nil {
			return nil, fmt.Errorf("unknown type %q in %s", name, full)
		}
		return obj.Type(), nil
	}
	// try: import of the current package by name, then module-relative path, then absolute path
	if p := e.pkgByPath[full]; p != nil {
		for _, imp := range p.Types.Imports() {
			if imp.Name() == pkgName || imp.Path() == pkgName {
				if obj := imp.Scope().Lookup(name); obj != nil {
					return obj.Type(), nil
				}
			}
		}
	}
	for _, cand := range []string{modulePath + "/" + pkgName, pkgName} {
		if p := e.pkgByPath[cand]; p != nil {
			if obj := p.Types.Scope().Lookup(name); obj != nil {
				return obj.Type(), nil
			}
		}
	}
	// unique package by name
	var found types.Type
	for _, p := range e.pkgByPath {
		if p.Types != nil && p.Types.Name() == pkgName {
			if obj := p.Types.Scope().Lookup(name); obj != nil {
				if found != nil {
					return nil, fmt.Errorf("ambiguous type %q", expr)
				}
				found = obj.Type()
			}
		}
	}
	if found != nil {
		return found, nil
	}
	return nil, fmt.Errorf("cannot resolve type %q (package %s)", expr, pkgPath)
}

func (e *Engine) stringAxiomsFor(ts []*Term) []*Term {
	used := map[string]bool{}
	for _, t := range ts {
		collectSyms(t, map[string]bool{}, used)
	}
	return e.stringAxioms(used)
}
