package main

// Replay of solver models against the real code (go test -overlay).

func (e *Engine) tryReplay(base, prop string, o *Obligation) (string, bool, string) {
	return "", false, "no replay generator for this obligation shape yet"
}
