package main

// Replay of a failed obligation against the real code.
//
// Counterexample models over the block memory are not turned into Go values automatically;
// instead /verif/findings/replays.json maps obligation names (regular expressions) to
// hand-written in-package tests that exercise exactly the failing input class. The test is
// injected with `go test -overlay` (nothing is written into the repository). If it fails on the
// current tree the violation is reported with that test as replay; otherwise the violation is
// still reported, ending in no-failing-input-found.

import (
	"encoding/json"
	"fmt"
	"os"
	"os/exec"
	"path/filepath"
	"regexp"
	"strings"
)

type replayTemplate struct {
	ObligationRe string `json:"obligation_re"`
	Test         string `json:"test"`
	Pkg          string `json:"pkg"`
	Run          string `json:"run"`
}

func (e *Engine) tryReplay(base, prop string, o *Obligation) (string, bool, string) {
	verif := e.verifDir
	data, err := os.ReadFile(filepath.Join(verif, "findings", "replays.json"))
	if err != nil {
		return "", false, "no replay templates (findings/replays.json)"
	}
	var ts []replayTemplate
	if err := json.Unmarshal(data, &ts); err != nil {
		return "", false, "bad replays.json: " + err.Error()
	}
	for _, t := range ts {
		re, err := regexp.Compile(t.ObligationRe)
		if err != nil || !re.MatchString(o.Name) {
			continue
		}
		testFile := filepath.Join(verif, t.Test)
		tmp, err := os.MkdirTemp("", "govc-replay-")
		if err != nil {
			return "", false, err.Error()
		}
		defer os.RemoveAll(tmp)
		ov := fmt.Sprintf(`{"Replace": {%q: %q}}`, filepath.Join(e.repo, t.Pkg, "zz_verif_replay_test.go"), testFile)
		ovFile := filepath.Join(tmp, "ov.json")
		os.WriteFile(ovFile, []byte(ov), 0o644)
		cmd := exec.Command("go", "test", "-overlay", ovFile, "-vet=off", "-count=1", "-timeout", "120s", "-run", t.Run, "./"+t.Pkg+"/")
		cmd.Dir = e.repo
		out, err := cmd.CombinedOutput()
		log := fmt.Sprintf("replay test %s (%s) on %s:\n%s", t.Test, t.Run, e.repo, truncate(string(out), 6000))
		if err != nil && strings.Contains(string(out), "FAIL") {
			return testFile, true, log + "\n=> reproduced on the real code"
		}
		return testFile, false, log + "\n=> the replay test passes on this tree (the failing input of this template is not the one that broke the obligation)"
	}
	return "", false, "no replay template matches this obligation"
}
