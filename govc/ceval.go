package main

// Evaluation of contract expressions over a symbolic state.

import (
	"fmt"
	"go/constant"
	"go/types"
	"math/big"
	"strconv"
	"strings"

	"golang.org/x/tools/go/ssa"
)

type freeBinding struct {
	name string
	val  Value
	typ  types.Type
}

type Env struct {
	v          *Verifier
	vars       map[string]Value
	pkgPath    string
	fnFrame    *Frame
	old        *State
	inOld      bool
	atReturn   bool
	freeVars   []freeBinding
	depth      int
	nq         int
	acqMode    bool
	which      *State          // state selected by the innermost old()/acq()
	boundNames map[string]bool // names of the SMT constants bound by enclosing quantifiers
}

type cevalError struct{ msg string }

func (env *Env) fail(format string, args ...any) {
	panic(cevalError{fmt.Sprintf(format, args...)})
}

func (env *Env) child() *Env {
	ne := *env
	ne.vars = map[string]Value{}
	for k, v := range env.vars {
		ne.vars[k] = v
	}
	return &ne
}

var nilType = types.Typ[types.UntypedNil]
var mathInt = types.Typ[types.UntypedInt]

func (v *Verifier) evalBool(st *State, env *Env, cl *Clause) *Term {
	env.fnFrame = st.frames[0]
	return v.evalBoolIn(st, env, cl)
}

func (v *Verifier) evalBoolIn(st *State, env *Env, cl *Clause) (res *Term) {
	defer func() {
		if r := recover(); r != nil {
			if ce, ok := r.(cevalError); ok {
				v.fail("%s:%d: contract clause %q: %s", cl.File, cl.Line, cl.Src, ce.msg)
			}
			panic(r)
		}
	}()
	// held(x) at top level of a requires clause of the function under proof marks the lock as held
	val := env.eval(st, cl.Expr)
	if len(val.L) != 1 || val.L[0].sort != SBool {
		env.fail("clause is not boolean")
	}
	return val.L[0]
}

func (env *Env) cur(st *State) *State {
	if env.inOld {
		if env.which != nil {
			return env.which
		}
		if env.old == nil {
			env.fail("old() used without a pre-state")
		}
		return env.old
	}
	return st
}

// load reads memory in the state selected by old(); ground reads (outside
// quantifiers) also record the well-typedness of what was read.
func (env *Env) load(st *State, blk, off *Term, t types.Type) Value {
	val := env.cur(st).loadAtRaw(blk, off, t)
	if env.nq == 0 || !(hasBound(blk, env.boundNames) || hasBound(off, env.boundNames)) {
		// ground reads (also inside quantifiers) record the well-typedness of what was read
		st.assumeWF(val)
	}
	return val
}

func boolVal(t *Term) Value { return Value{T: types.Typ[types.Bool], L: []*Term{t}} }
func intVal(t *Term) Value  { return Value{T: mathInt, L: []*Term{t}} }

func (env *Env) eval(st *State, e CExpr) Value {
	v := env.v
	switch e := e.(type) {
	case CInt:
		bi, ok := new(big.Int).SetString(e.V, 0)
		if !ok {
			env.fail("bad integer %q", e.V)
		}
		return intVal(BigLit(bi))
	case CStr:
		return Value{T: types.Typ[types.String], L: []*Term{v.e.strLit(e.V)}}
	case CBool:
		return boolVal(BoolLit(e.V))
	case CNil:
		return Value{T: nilType}
	case CIdent:
		return env.ident(st, e.Name)
	case COld:
		ne := *env
		ne.inOld = true
		if e.Label == "acq" {
			if st.acq == nil {
				// no acquisition on this path (early return): the current state stands in
				ne.inOld = false
				ne.which = nil
				return ne.eval(st, e.X)
			}
			ne.which = st.acq
			ne.acqMode = true
		} else {
			if env.old == nil {
				env.fail("old() used without a pre-state")
			}
			ne.which = env.old
			ne.acqMode = false
		}
		return ne.eval(st, e.X)
	case CIte:
		c := env.eval(st, e.C).L[0]
		a := env.eval(st, e.A)
		b := env.eval(st, e.B)
		a, b = env.unifyNil(a, b)
		out := Value{T: a.T, L: make([]*Term, len(a.L))}
		for i := range a.L {
			out.L[i] = Ite(c, a.L[i], b.L[i])
		}
		return out
	case CUnary:
		switch e.Op {
		case "!":
			return boolVal(Not(env.eval(st, e.X).L[0]))
		case "-":
			return intVal(Neg(env.eval(st, e.X).L[0]))
		case "*":
			p := env.eval(st, e.X)
			if !isPointerShaped(p.T) {
				env.fail("dereference of non-pointer")
			}
			return env.load(st, p.L[0], p.L[1], derefType(p.T))
		case "&":
			loc := env.loc(st, e.X)
			return Value{T: types.NewPointer(loc.typ), L: []*Term{loc.blk, loc.off}}
		}
	case CBinary:
		return env.binary(st, e)
	case CSel:
		return env.sel(st, e)
	case CIndex:
		x := env.eval(st, e.X)
		i := env.eval(st, e.I)
		switch t := x.T.Underlying().(type) {
		case *types.Slice:
			es := v.e.lay.Size(t.Elem())
			return env.load(st, x.L[0], Add(x.L[1], strideOf(i.L[0], int64(es))), t.Elem())
		case *types.Map:
			val, _ := v.mapGet(env.cur(st), t, x.L[0], i, true)
			return val
		case *types.Basic:
			return intVal(v.e.sy.App("str_at", SInt, x.L[0], i.L[0]))
		case *types.Array:
			iv, ok := i.L[0].IsInt()
			if !ok {
				env.fail("symbolic index into array value")
			}
			es := v.e.lay.Size(t.Elem())
			return x.sub(int(iv.Int64())*es, es, t.Elem())
		case *types.Pointer:
			if at, ok := t.Elem().Underlying().(*types.Array); ok {
				es := v.e.lay.Size(at.Elem())
				return env.load(st, x.L[0], Add(x.L[1], strideOf(i.L[0], int64(es))), at.Elem())
			}
		}
		env.fail("cannot index %v", x.T)
	case CSlice:
		x := env.eval(st, e.X)
		t, ok := x.T.Underlying().(*types.Slice)
		if !ok {
			env.fail("cannot slice %v", x.T)
		}
		es := v.e.lay.Size(t.Elem())
		lo := IntLit(0)
		if e.Lo != nil {
			lo = env.eval(st, e.Lo).L[0]
		}
		hi := x.L[2]
		if e.Hi != nil {
			hi = env.eval(st, e.Hi).L[0]
		}
		return Value{T: x.T, L: []*Term{x.L[0], Add(x.L[1], strideOf(lo, int64(es))), Sub(hi, lo), Sub(x.L[3], lo)}}
	case CCall:
		return env.call(st, e)
	case CQuant:
		ne := env.child()
		ne.nq = env.nq + 1
		ne.boundNames = map[string]bool{}
		for k := range env.boundNames {
			ne.boundNames[k] = true
		}
		var bound []*Term
		for _, p := range e.Vars {
			t, err := v.e.resolveType(p.Type, env.pkgPath)
			if err != nil {
				env.fail("%v", err)
			}
			lay := v.e.lay.Of(t)
			val := Value{T: t, L: make([]*Term, len(lay))}
			for i, sl := range lay {
				v.e.sy.n++
				c := &Term{op: "const", name: fmt.Sprintf("%s!q%d_%d", sanitize(p.Name), v.e.sy.n, i), sort: sl.K.Sort()}
				val.L[i] = c
				bound = append(bound, c)
				ne.boundNames[c.name] = true
			}
			ne.vars[p.Name] = val
		}
		body := ne.eval(st, e.Body).L[0]
		if e.Forall && len(e.Trig) > 0 {
			var pats []*Term
			for _, te := range e.Trig {
				tv := ne.eval(st, te)
				pats = append(pats, tv.L[0])
			}
			return boolVal(ForallPat(bound, body, pats))
		}
		if e.Forall {
			return boolVal(Forall(bound, body))
		}
		return boolVal(Exists(bound, body))
	}
	env.fail("unsupported expression %T", e)
	return Value{}
}

func (env *Env) unifyNil(a, b Value) (Value, Value) {
	if a.T == nilType && b.T != nilType {
		a = env.v.e.zeroValue(b.T)
	}
	if b.T == nilType && a.T != nilType {
		b = env.v.e.zeroValue(a.T)
	}
	if len(a.L) != len(b.L) {
		env.fail("operands have different shapes: %v vs %v", a.T, b.T)
	}
	return a, b
}

func (env *Env) equal(a, b Value) *Term {
	if a.T == nilType && b.T == nilType {
		return TTrue
	}
	if a.T == nilType {
		a, b = b, a
	}
	if b.T == nilType {
		// nil test: first leaf
		switch a.T.Underlying().(type) {
		case *types.Pointer, *types.Slice, *types.Map, *types.Chan, *types.Signature, *types.Interface:
			return Eq(a.L[0], IntLit(0))
		}
		if bb, ok := a.T.Underlying().(*types.Basic); ok && bb.Kind() == types.UnsafePointer {
			return Eq(a.L[0], IntLit(0))
		}
		env.fail("comparison of %v with nil", a.T)
	}
	if len(a.L) != len(b.L) {
		env.fail("== on different shapes: %v vs %v", a.T, b.T)
	}
	var cs []*Term
	for i := range a.L {
		if a.L[i].sort != b.L[i].sort {
			env.fail("== on different sorts: %v vs %v", a.T, b.T)
		}
		cs = append(cs, Eq(a.L[i], b.L[i]))
	}
	return And(cs...)
}

func (env *Env) binary(st *State, e CBinary) Value {
	v := env.v
	switch e.Op {
	case "&&":
		return boolVal(And(env.eval(st, e.X).L[0], env.eval(st, e.Y).L[0]))
	case "||":
		return boolVal(Or(env.eval(st, e.X).L[0], env.eval(st, e.Y).L[0]))
	case "==>":
		return boolVal(Implies(env.eval(st, e.X).L[0], env.eval(st, e.Y).L[0]))
	case "<==>":
		return boolVal(Iff(env.eval(st, e.X).L[0], env.eval(st, e.Y).L[0]))
	}
	x := env.eval(st, e.X)
	y := env.eval(st, e.Y)
	switch e.Op {
	case "==":
		return boolVal(env.equal(x, y))
	case "!=":
		return boolVal(Not(env.equal(x, y)))
	}
	if len(x.L) != 1 || len(y.L) != 1 {
		env.fail("operator %s on compound values", e.Op)
	}
	a, b := x.L[0], y.L[0]
	if a.sort == SStr {
		switch e.Op {
		case "<":
			return boolVal(v.e.strLt(a, b))
		case ">":
			return boolVal(v.e.strLt(b, a))
		case "<=":
			return boolVal(Not(v.e.strLt(b, a)))
		case ">=":
			return boolVal(Not(v.e.strLt(a, b)))
		case "+":
			return Value{T: x.T, L: []*Term{v.e.sy.App("str_cat", SStr, a, b)}}
		}
	}
	if a.sort != SInt || b.sort != SInt {
		env.fail("operator %s on %s/%s", e.Op, a.sort, b.sort)
	}
	rt := x.T
	if rt == mathInt {
		rt = y.T
	}
	switch e.Op {
	case "+":
		return Value{T: rt, L: []*Term{Add(a, b)}}
	case "-":
		return Value{T: rt, L: []*Term{Sub(a, b)}}
	case "*":
		return Value{T: rt, L: []*Term{Mul(a, b)}}
	case "/":
		return Value{T: rt, L: []*Term{SDiv(a, b)}}
	case "%":
		return Value{T: rt, L: []*Term{SMod(a, b)}}
	case "<":
		return boolVal(Lt(a, b))
	case "<=":
		return boolVal(Le(a, b))
	case ">":
		return boolVal(Gt(a, b))
	case ">=":
		return boolVal(Ge(a, b))
	}
	env.fail("unknown operator %s", e.Op)
	return Value{}
}

// ---------------------------------------------------------------------------
// identifiers

func (env *Env) ident(st *State, name string) Value {
	v := env.v
	if val, ok := env.vars[name]; ok {
		return val
	}
	for _, fb := range env.freeVars {
		if fb.name == name {
			return env.load(st, fb.val.L[0], fb.val.L[1], derefType(fb.typ))
		}
	}
	if fr := env.fnFrame; fr != nil {
		if (env.inOld && !env.acqMode) || env.atReturn {
			if val, ok := fr.entryParams[name]; ok {
				return val
			}
		}
		if !env.inOld || env.acqMode {
			base, ord := name, 0
			if i := strings.Index(name, "#"); i > 0 {
				base = name[:i]
				ord, _ = strconv.Atoi(name[i+1:])
			}
			allocs := fr.info.varAlloc[base]
			n := 0
			for _, a := range allocs {
				rv, ok := fr.regs[a]
				if !ok {
					continue
				}
				n++
				if ord != 0 && n != ord {
					continue
				}
				if rv.cell != nil {
					c := fr.cells[rv.cell.alloc]
					return Value{T: c.T, L: c.L}
				}
				return st.loadAtRaw(rv.L[0], rv.L[1], derefType(a.Type()))
			}
		}
		for _, p := range fr.fn.Params {
			if p.Name() == name {
				if val, ok := fr.entryParams[name]; ok && ((env.inOld && !env.acqMode) || env.atReturn) {
					return val
				}
				return fr.regs[p]
			}
		}
		for _, fv := range fr.fn.FreeVars {
			if fv.Name() == name {
				p := fr.regs[fv]
				return env.load(st, p.L[0], p.L[1], derefType(fv.Type()))
			}
		}
		if allocs := fr.info.varAlloc[name]; len(allocs) > 0 && !env.inOld {
			// declared later on this path (e.g. an early return): any value
			t := derefType(allocs[0].Type())
			lay := v.e.lay.Of(t)
			val := Value{T: t, L: make([]*Term, len(lay))}
			for i, sl := range lay {
				val.L[i] = v.e.sy.Fresh("undef_"+name, sl.K.Sort())
			}
			return val
		}
	}
	if v.fc != nil {
		if _, ok := v.fc.GhostLocals[name]; ok {
			if gv, ok := env.cur(st).glocals[name]; ok {
				return gv
			}
		}
	}
	if gv, ok := v.e.ct.GhostVars[name]; ok {
		t, err := v.e.resolveType(gv.Type, gv.PkgPath)
		if err != nil {
			env.fail("%v", err)
		}
		return env.load(st, v.e.ghostBlock(name), IntLit(0), t)
	}
	// package-level constant or variable
	if val, ok := env.pkgObject(st, env.pkgPath, name); ok {
		return val
	}
	env.fail("unknown identifier %q", name)
	return Value{}
}

func (env *Env) fullPkg(p string) string {
	if p == "." {
		return modulePath
	}
	if p == "" || strings.HasPrefix(p, modulePath) {
		return p
	}
	return modulePath + "/" + p
}

func (env *Env) pkgObject(st *State, pkgPath, name string) (Value, bool) {
	v := env.v
	p := v.e.pkgByPath[env.fullPkg(pkgPath)]
	if p == nil || p.Types == nil {
		p = v.e.pkgByPath[pkgPath]
	}
	if p == nil || p.Types == nil {
		return Value{}, false
	}
	obj := p.Types.Scope().Lookup(name)
	switch o := obj.(type) {
	case *types.Const:
		switch o.Val().Kind() {
		case constant.Int:
			bi, _ := new(big.Int).SetString(o.Val().ExactString(), 10)
			return Value{T: o.Type(), L: []*Term{BigLit(bi)}}, true
		case constant.Bool:
			return boolVal(BoolLit(constant.BoolVal(o.Val()))), true
		case constant.String:
			return Value{T: o.Type(), L: []*Term{v.e.strLit(constant.StringVal(o.Val()))}}, true
		}
	case *types.Var:
		sp := v.e.spkgs[p.Types.Path()]
		if sp != nil {
			if g, ok := sp.Members[name].(*ssa.Global); ok {
				return env.load(st, v.e.globalBlock(g), IntLit(0), o.Type()), true
			}
		}
	}
	return Value{}, false
}

// resolvePkgName maps an identifier used as a package qualifier to a package path.
func (env *Env) resolvePkgName(name string) (string, bool) {
	v := env.v
	if p := v.e.pkgByPath[env.fullPkg(env.pkgPath)]; p != nil && p.Types != nil {
		for _, imp := range p.Types.Imports() {
			if imp.Name() == name {
				return imp.Path(), true
			}
		}
	}
	var found string
	for path, p := range v.e.pkgByPath {
		if p.Types != nil && p.Types.Name() == name && strings.HasPrefix(path, modulePath) {
			if found != "" {
				return "", false
			}
			found = path
		}
	}
	return found, found != ""
}

// ---------------------------------------------------------------------------
// selectors

func (env *Env) structOf(t types.Type) (*types.Struct, *types.Named, bool) {
	if p, ok := t.Underlying().(*types.Pointer); ok {
		t = p.Elem()
	}
	n, _ := t.(*types.Named)
	if n == nil {
		if a, ok := t.(*types.Alias); ok {
			n, _ = types.Unalias(a).(*types.Named)
		}
	}
	s, ok := t.Underlying().(*types.Struct)
	return s, n, ok
}

func (env *Env) sel(st *State, e CSel) Value {
	v := env.v
	// package-qualified object
	if id, ok := e.X.(CIdent); ok {
		if _, isVar := env.lookupVarQuiet(st, id.Name); !isVar {
			if path, ok := env.resolvePkgName(id.Name); ok {
				if val, ok := env.pkgObject(st, path, e.Name); ok {
					return val
				}
				env.fail("unknown object %s.%s", id.Name, e.Name)
			}
		}
	}
	x := env.eval(st, e.X)
	stt, named, ok := env.structOf(x.T)
	if !ok {
		// pseudo fields
		switch x.T.Underlying().(type) {
		case *types.Interface:
			switch e.Name {
			case "tid":
				return intVal(x.L[0])
			case "blk":
				return intVal(x.L[1])
			case "off":
				return intVal(x.L[2])
			}
		case *types.Slice:
			switch e.Name {
			case "blk":
				return intVal(x.L[0])
			case "off":
				return intVal(x.L[1])
			}
		}
		env.fail("selector .%s on non-struct %v", e.Name, x.T)
	}
	isPtr := isPointerShaped(x.T)
	if isPtr {
		switch e.Name {
		case "blk":
			return intVal(x.L[0])
		case "off":
			return intVal(x.L[1])
		}
	}
	for i := 0; i < stt.NumFields(); i++ {
		if stt.Field(i).Name() != e.Name {
			continue
		}
		off := v.e.lay.FieldOff(stt, i)
		ft := stt.Field(i).Type()
		if isPtr {
			return env.load(st, x.L[0], Add(x.L[1], IntLit(int64(off))), ft)
		}
		return x.sub(off, v.e.lay.Size(ft), ft)
	}
	// embedded struct promotion (one level)
	for i := 0; i < stt.NumFields(); i++ {
		f := stt.Field(i)
		if !f.Embedded() {
			continue
		}
		if est, _, ok := env.structOf(f.Type()); ok {
			for j := 0; j < est.NumFields(); j++ {
				if est.Field(j).Name() == e.Name {
					inner := CSel{X: CSel{X: e.X, Name: f.Name()}, Name: e.Name}
					return env.eval(st, inner)
				}
			}
		}
	}
	// ghost field
	if named != nil && isPtr {
		if tc := v.e.ct.Types[typeKey(named)]; tc != nil {
			for _, g := range tc.Ghost {
				if g.Name == e.Name {
					gt, err := v.e.resolveType(g.Type, tc.PkgPath)
					if err != nil {
						env.fail("%v", err)
					}
					return v.ghostLoad(env.cur(st), typeKey(named), g.Name, x.L[0], x.L[1], gt)
				}
			}
		}
	}
	env.fail("no field %s in %v", e.Name, x.T)
	return Value{}
}

func (env *Env) lookupVarQuiet(st *State, name string) (val Value, ok bool) {
	defer func() {
		if r := recover(); r != nil {
			if _, isCE := r.(cevalError); isCE {
				ok = false
				return
			}
			panic(r)
		}
	}()
	if _, exists := env.vars[name]; exists {
		return Value{}, true
	}
	// only variables in scope count; package objects do not
	if fr := env.fnFrame; fr != nil {
		if _, ok := fr.entryParams[name]; ok {
			return Value{}, true
		}
		if len(fr.info.varAlloc[name]) > 0 {
			return Value{}, true
		}
		for _, fv := range fr.fn.FreeVars {
			if fv.Name() == name {
				return Value{}, true
			}
		}
	}
	for _, fb := range env.freeVars {
		if fb.name == name {
			return Value{}, true
		}
	}
	if _, ok := env.v.e.ct.GhostVars[name]; ok {
		return Value{}, true
	}
	return Value{}, false
}

// ---------------------------------------------------------------------------
// locations

type location struct {
	blk, off *Term
	typ      types.Type
	size     int
	whole    bool  // the whole block
	rangeLen *Term // with whole: only offsets [off, off+rangeLen) (nil: every offset)
	mapType  *types.Map
	ghostKey string // type key for ghost fields
	ghostFld string
}

func (env *Env) loc(st *State, e CExpr) location {
	v := env.v
	switch e := e.(type) {
	case CIdent:
		if gv, ok := v.e.ct.GhostVars[e.Name]; ok {
			t, err := v.e.resolveType(gv.Type, gv.PkgPath)
			if err != nil {
				env.fail("%v", err)
			}
			return location{blk: v.e.ghostBlock(e.Name), off: IntLit(0), typ: t, size: v.e.lay.Size(t)}
		}
		// a pointer-typed variable denotes its pointee when used as an lvalue root
		env.fail("identifier %s is not an lvalue", e.Name)
	case CUnary:
		if e.Op == "*" {
			p := env.eval(st, e.X)
			t := derefType(p.T)
			return location{blk: p.L[0], off: p.L[1], typ: t, size: v.e.lay.Size(t)}
		}
	case CSel:
		x := env.eval(st, e.X)
		stt, named, ok := env.structOf(x.T)
		if ok && !isPointerShaped(x.T) {
			// field of a struct value that is itself a location (embedded struct, nested field)
			base := env.loc(st, e.X)
			if bst, isStruct := base.typ.Underlying().(*types.Struct); isStruct && !base.whole && base.ghostKey == "" {
				for i := 0; i < bst.NumFields(); i++ {
					if bst.Field(i).Name() == e.Name {
						ft := bst.Field(i).Type()
						return location{blk: base.blk, off: Add(base.off, IntLit(int64(v.e.lay.FieldOff(bst, i)))), typ: ft, size: v.e.lay.Size(ft)}
					}
				}
			}
			env.fail("no field %s in %v", e.Name, base.typ)
		}
		if !ok || !isPointerShaped(x.T) {
			env.fail("lvalue .%s needs a pointer to struct, got %v", e.Name, x.T)
		}
		for i := 0; i < stt.NumFields(); i++ {
			if stt.Field(i).Name() == e.Name {
				ft := stt.Field(i).Type()
				return location{blk: x.L[0], off: Add(x.L[1], IntLit(int64(v.e.lay.FieldOff(stt, i)))), typ: ft, size: v.e.lay.Size(ft)}
			}
		}
		if named != nil {
			if tc := v.e.ct.Types[typeKey(named)]; tc != nil {
				for _, g := range tc.Ghost {
					if g.Name == e.Name {
						gt, err := v.e.resolveType(g.Type, tc.PkgPath)
						if err != nil {
							env.fail("%v", err)
						}
						return location{blk: x.L[0], off: x.L[1], typ: gt, size: v.e.lay.Size(gt), ghostKey: typeKey(named), ghostFld: g.Name}
					}
				}
			}
		}
		env.fail("no field %s", e.Name)
	case CIndex:
		x := env.eval(st, e.X)
		i := env.eval(st, e.I)
		if t, ok := x.T.Underlying().(*types.Slice); ok {
			es := v.e.lay.Size(t.Elem())
			return location{blk: x.L[0], off: Add(x.L[1], strideOf(i.L[0], int64(es))), typ: t.Elem(), size: es}
		}
	case CCall:
		switch e.Fun {
		case "elemrange":
			// exactly the elements of a slice: offsets [off, off+len*size) of its block
			x := env.eval(st, e.Args[0])
			if t, ok := x.T.Underlying().(*types.Slice); ok {
				es := v.e.lay.Size(t.Elem())
				return location{blk: x.L[0], off: x.L[1], whole: true, rangeLen: strideOf(x.L[2], int64(es))}
			}
		case "elems":
			// the whole backing block of a slice / the pointee block / a map
			x := env.eval(st, e.Args[0])
			switch t := x.T.Underlying().(type) {
			case *types.Slice, *types.Pointer:
				return location{blk: x.L[0], off: IntLit(0), whole: true}
			case *types.Interface:
				return location{blk: x.L[1], off: IntLit(0), whole: true}
			case *types.Map:
				return location{blk: x.L[0], mapType: t, whole: true}
			}
		}
	}
	env.fail("expression is not an lvalue")
	return location{}
}

func (v *Verifier) havocLValue(st *State, env *Env, m CExpr) {
	defer func() {
		if r := recover(); r != nil {
			if ce, ok := r.(cevalError); ok {
				v.fail("modifies clause: %s", ce.msg)
			}
			panic(r)
		}
	}()
	loc := env.loc(st, m)
	switch {
	case loc.mapType != nil:
		v.mapHavoc(st, loc.mapType, loc.blk)
	case loc.whole && loc.rangeLen != nil:
		st.havocRange(loc.blk, loc.off, loc.rangeLen)
	case loc.whole:
		st.havocBlock(loc.blk)
	case loc.ghostKey != "":
		nv := st.freshValue("gh_"+loc.ghostFld, loc.typ)
		v.ghostStore(st, loc.ghostKey, loc.ghostFld, loc.blk, loc.off, nv)
	default:
		nv := st.freshValue("mod", loc.typ)
		st.storeAt(loc.blk, loc.off, nv)
	}
}

func (v *Verifier) evalLocOld(st *State, env *Env, m CExpr) (loc location, ok bool) {
	defer func() {
		if r := recover(); r != nil {
			if _, isCE := r.(cevalError); isCE {
				ok = false
				return
			}
			panic(r)
		}
	}()
	ne := *env
	ne.inOld = true
	ne.fnFrame = st.frames[0]
	return ne.loc(st, m), true
}

// ---------------------------------------------------------------------------
// calls: builtins, predicates, spec functions

func (env *Env) call(st *State, e CCall) Value {
	v := env.v
	arg := func(i int) Value {
		if i >= len(e.Args) {
			env.fail("%s: missing argument %d", e.Fun, i)
		}
		return env.eval(st, e.Args[i])
	}
	switch e.Fun {
	case "addr":
		// addr(x): the address of a local variable of the function under proof whose address is
		// taken in the code (so that it lives in memory)
		if id, ok := e.Args[0].(CIdent); ok && env.fnFrame != nil {
			for _, a := range env.fnFrame.info.varAlloc[id.Name] {
				if rv, ok := env.fnFrame.regs[a]; ok && rv.cell == nil {
					return Value{T: a.Type(), L: rv.L}
				}
			}
		}
		env.fail("addr: %v is not an addressable local variable", e.Args[0])
	case "len":
		x := arg(0)
		switch t := x.T.Underlying().(type) {
		case *types.Slice:
			return intVal(x.L[2])
		case *types.Basic:
			return intVal(v.e.strLen(x.L[0]))
		case *types.Map:
			return intVal(v.mapLen(env.cur(st), t, x.L[0]))
		case *types.Array:
			return intVal(IntLit(t.Len()))
		}
		env.fail("len of %v", x.T)
	case "cap":
		x := arg(0)
		if _, ok := x.T.Underlying().(*types.Slice); ok {
			return intVal(x.L[3])
		}
		env.fail("cap of %v", x.T)
	case "closed":
		// closed(ch): close(ch) has been executed (by this invocation, or as a callee's contract says)
		c := arg(0)
		if _, ok := c.T.Underlying().(*types.Chan); !ok || len(c.L) != 1 {
			env.fail("closed(ch): ch is not a channel")
		}
		cs := env.cur(st)
		return boolVal(mk("select", SBool, cs.mapArr("chan$closed", ArraySort(SInt, SBool)), c.L[0]))
	case "in":
		k := arg(0)
		m := arg(1)
		mt, ok := m.T.Underlying().(*types.Map)
		if !ok {
			env.fail("in(k, m): m is not a map")
		}
		_, present := v.mapGet(env.cur(st), mt, m.L[0], k, true)
		return boolVal(And(Neq(m.L[0], IntLit(0)), present))
	case "held":
		p := arg(0)
		if !isPointerShaped(p.T) {
			loc := env.loc(st, e.Args[0])
			p = Value{T: types.NewPointer(loc.typ), L: []*Term{loc.blk, loc.off}}
		}
		cs := env.cur(st)
		if cs.held[lockKey(p)] != nil {
			return boolVal(TTrue)
		}
		return boolVal(cs.heldTerm(p.L[0], p.L[1]))
	case "fresh":
		x := arg(0)
		if env.old == nil {
			env.fail("fresh() needs a pre-state")
		}
		idx := 0
		if _, ok := x.T.Underlying().(*types.Interface); ok {
			idx = 1
		}
		return boolVal(Ge(x.L[idx], env.old.next))
	case "allocated":
		// allocated(p): the block p points into exists in the current state
		x := arg(0)
		idx := 0
		if _, ok := x.T.Underlying().(*types.Interface); ok {
			idx = 1
		}
		return boolVal(Lt(x.L[idx], env.cur(st).next))
	case "typeis":
		x := arg(0)
		ts, ok := e.Args[1].(CStr)
		if !ok {
			env.fail("typeis(x, \"type\")")
		}
		t, err := v.e.resolveType(ts.V, env.pkgPath)
		if err != nil {
			env.fail("%v", err)
		}
		return boolVal(Eq(x.L[0], IntLit(int64(v.e.typeID(t)))))
	case "implements":
		x := arg(0)
		ts, ok := e.Args[1].(CStr)
		if !ok {
			env.fail("implements(x, \"iface\")")
		}
		t, err := v.e.resolveType(ts.V, env.pkgPath)
		if err != nil {
			env.fail("%v", err)
		}
		it, ok := t.Underlying().(*types.Interface)
		if !ok {
			env.fail("implements: %s is not an interface", ts.V)
		}
		return boolVal(v.e.implementsTerm(st, x.L[0], it, types.TypeString(t, nil)))
	case "unbox":
		// unbox(x, "T"): the value of dynamic type T stored in interface x
		x := arg(0)
		ts, ok := e.Args[1].(CStr)
		if !ok {
			env.fail("unbox(x, \"type\")")
		}
		t, err := v.e.resolveType(ts.V, env.pkgPath)
		if err != nil {
			env.fail("%v", err)
		}
		if isPointerShaped(t) {
			return Value{T: t, L: []*Term{x.L[1], x.L[2]}}
		}
		return env.load(st, x.L[1], x.L[2], t)
	case "pointee_iface":
		// pointee_iface(x): x is an interface value holding a pointer to an interface variable; the variable's value
		x := arg(0)
		if _, ok := x.T.Underlying().(*types.Interface); !ok {
			env.fail("pointee_iface expects an interface value")
		}
		return env.load(st, x.L[1], x.L[2], types.Universe.Lookup("any").Type())
	case "min", "max":
		a, b := arg(0).L[0], arg(1).L[0]
		if e.Fun == "min" {
			return intVal(Ite(Le(a, b), a, b))
		}
		return intVal(Ite(Ge(a, b), a, b))
	case "int":
		return intVal(arg(0).L[0])
	case "u64", "u32", "u8", "i64", "i32":
		x := arg(0).L[0]
		var lo, size *big.Int
		var t types.Type
		switch e.Fun {
		case "u64":
			lo, size, t = big.NewInt(0), new(big.Int).Lsh(bigOne, 64), types.Typ[types.Uint64]
		case "u32":
			lo, size, t = big.NewInt(0), new(big.Int).Lsh(bigOne, 32), types.Typ[types.Uint32]
		case "u8":
			lo, size, t = big.NewInt(0), new(big.Int).Lsh(bigOne, 8), types.Typ[types.Uint8]
		case "i64":
			lo, size, t = new(big.Int).Neg(new(big.Int).Lsh(bigOne, 63)), new(big.Int).Lsh(bigOne, 64), types.Typ[types.Int64]
		default:
			lo, size, t = new(big.Int).Neg(new(big.Int).Lsh(bigOne, 31)), new(big.Int).Lsh(bigOne, 32), types.Typ[types.Int32]
		}
		// one-period wrap (exact for lo-size <= x <= hi+size), linear
		hi := new(big.Int).Sub(new(big.Int).Add(lo, size), bigOne)
		return Value{T: t, L: []*Term{Ite(Lt(x, BigLit(lo)), Add(x, BigLit(size)), Ite(Gt(x, BigLit(hi)), Sub(x, BigLit(size)), x))}}
	}
	if p, ok := v.e.ct.Preds[e.Fun]; ok {
		if env.depth > 20 {
			env.fail("predicate expansion too deep")
		}
		if len(e.Args) != len(p.Params) {
			env.fail("%s expects %d arguments", p.Name, len(p.Params))
		}
		ne := &Env{v: v, vars: map[string]Value{}, pkgPath: p.PkgPath, old: env.old, inOld: env.inOld, depth: env.depth + 1, nq: env.nq, acqMode: env.acqMode, which: env.which, boundNames: env.boundNames}
		for i, pa := range p.Params {
			val := arg(i)
			if val.T == nilType || val.T == mathInt {
				if t, err := v.e.resolveType(pa.Type, p.PkgPath); err == nil {
					if val.T == nilType {
						val = v.e.zeroValue(t)
					} else {
						val.T = t
					}
				}
			}
			ne.vars[pa.Name] = val
		}
		return ne.eval(st, p.Body)
	}
	if f, ok := v.e.ct.Fns[e.Fun]; ok {
		if len(e.Args) != len(f.Params) {
			env.fail("%s expects %d arguments", f.Name, len(f.Params))
		}
		var leaves []*Term
		for i := range f.Params {
			val := arg(i)
			if val.T == nilType {
				t, err := v.e.resolveType(f.Params[i].Type, f.PkgPath)
				if err != nil {
					env.fail("%v", err)
				}
				val = v.e.zeroValue(t)
			}
			leaves = append(leaves, val.L...)
		}
		rt, err := v.e.resolveType(f.Ret, f.PkgPath)
		if err != nil {
			env.fail("%v", err)
		}
		lay := v.e.lay.Of(rt)
		out := Value{T: rt, L: make([]*Term, len(lay))}
		for i, sl := range lay {
			name := f.Name
			if len(lay) > 1 {
				name = fmt.Sprintf("%s.%d", f.Name, i)
			}
			out.L[i] = v.e.sy.App("fn_"+name, sl.K.Sort(), leaves...)
			// a pointer named by a specification function is a pointer of the program: it is not one
			// of the ghost / frozen blocks that live below every pointer value
			if sl.Role == RBlk && env.nq == 0 {
				st.assume(Gt(out.L[i], IntLit(-2000000000)))
			}
		}
		return out
	}
	env.fail("unknown function %s", e.Fun)
	return Value{}
}
