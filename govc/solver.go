package main

// Solver portfolio: z3-new first (short budget), then a race of z3, z3-new, cvc5.

import (
	"bytes"
	"context"
	"fmt"
	"os"
	"os/exec"
	"path/filepath"
	"strings"
	"sync"
	"time"
)

type SolveResult struct {
	Status  string // "unsat", "sat", "unknown"
	Solver  string
	Seconds float64
	Model   string
	Raw     string
}

type solverSpec struct {
	name string
	argv func(file string, timeoutS int) []string
}

var solvers = []solverSpec{
	{"z3-new", func(f string, t int) []string { return []string{"z3-new", fmt.Sprintf("-T:%d", t), f} }},
	{"z3", func(f string, t int) []string { return []string{"z3", fmt.Sprintf("-T:%d", t), f} }},
	{"cvc5", func(f string, t int) []string {
		return []string{"cvc5", fmt.Sprintf("--tlimit=%d", t*1000), "--full-saturate-quant", f}
	}},
}

func runOne(ctx context.Context, sp solverSpec, file string, timeoutS int) SolveResult {
	argv := sp.argv(file, timeoutS)
	cctx, cancel := context.WithTimeout(ctx, time.Duration(timeoutS+2)*time.Second)
	defer cancel()
	cmd := exec.CommandContext(cctx, argv[0], argv[1:]...)
	var out bytes.Buffer
	cmd.Stdout = &out
	cmd.Stderr = &out
	t0 := time.Now()
	_ = cmd.Run()
	el := time.Since(t0).Seconds()
	txt := out.String()
	first := strings.TrimSpace(strings.SplitN(txt, "\n", 2)[0])
	res := SolveResult{Solver: sp.name, Seconds: el, Raw: txt, Status: "unknown"}
	switch first {
	case "unsat":
		res.Status = "unsat"
	case "sat":
		res.Status = "sat"
		if i := strings.Index(txt, "\n"); i >= 0 {
			res.Model = txt[i+1:]
		}
	}
	return res
}

// Solve discharges one query text. workDir receives the .smt2 file.
func Solve(workDir, name, query string, timeoutS int, solverTime *SolverStats) SolveResult {
	file := filepath.Join(workDir, sanitize(name)+".smt2")
	if len(file) > 200 {
		file = filepath.Join(workDir, fmt.Sprintf("q%x.smt2", hashString(name)))
	}
	if err := os.WriteFile(file, []byte(query), 0o644); err != nil {
		return SolveResult{Status: "unknown", Raw: err.Error()}
	}
	ctx := context.Background()
	// stage 1: z3-new alone with a short budget
	s1 := 3
	if timeoutS < s1 {
		s1 = timeoutS
	}
	r := runOne(ctx, solvers[0], file, s1)
	solverTime.add(r)
	if r.Status != "unknown" {
		return r
	}
	// stage 2: race
	rctx, cancel := context.WithCancel(ctx)
	defer cancel()
	ch := make(chan SolveResult, len(solvers))
	for _, sp := range solvers {
		sp := sp
		go func() { ch <- runOne(rctx, sp, file, timeoutS) }()
	}
	var last SolveResult
	for range solvers {
		rr := <-ch
		solverTime.add(rr)
		if rr.Status != "unknown" {
			cancel()
			return rr
		}
		last = rr
	}
	last.Status = "unknown"
	return last
}

type SolverStats struct {
	mu      sync.Mutex
	Wins    map[string]int
	Seconds map[string]float64
}

func NewSolverStats() *SolverStats {
	return &SolverStats{Wins: map[string]int{}, Seconds: map[string]float64{}}
}

func (s *SolverStats) add(r SolveResult) {
	s.mu.Lock()
	defer s.mu.Unlock()
	s.Seconds[r.Solver] += r.Seconds
	if r.Status != "unknown" {
		s.Wins[r.Solver]++
	}
}

func hashString(s string) uint64 {
	var h uint64 = 1469598103934665603
	for i := 0; i < len(s); i++ {
		h ^= uint64(s[i])
		h *= 1099511628211
	}
	return h
}
