package main

// Solver portfolio: z3-new first (short budget), then a race of z3, z3-new, cvc5.

import (
	"bytes"
	"context"
	"fmt"
	"os"
	"os/exec"
	"path/filepath"
	"strings"
	"sync"
	"time"
)

type SolveResult struct {
	Status  string // "unsat", "sat", "unknown"
	Solver  string
	Seconds float64
	Model   string
	Raw     string
	variant string
}

type solverSpec struct {
	name string
	argv func(file string, timeoutS int) []string
}

var solvers = []solverSpec{
	{"z3-new", func(f string, t int) []string { return []string{"z3-new", fmt.Sprintf("-T:%d", t), f} }},
	{"z3", func(f string, t int) []string { return []string{"z3", fmt.Sprintf("-T:%d", t), f} }},
	{"cvc5", func(f string, t int) []string {
		return []string{"cvc5", fmt.Sprintf("--tlimit=%d", t*1000), "--full-saturate-quant", f}
	}},
}

// procSlots bounds the number of solver processes running at once.
var procSlots = make(chan struct{}, 16)

func runOne(ctx context.Context, sp solverSpec, file string, timeoutS int) SolveResult {
	select {
	case procSlots <- struct{}{}:
		defer func() { <-procSlots }()
	case <-ctx.Done():
		return SolveResult{Solver: sp.name, Status: "unknown"}
	}
	if ctx.Err() != nil {
		return SolveResult{Solver: sp.name, Status: "unknown"}
	}
	argv := sp.argv(file, timeoutS)
	cctx, cancel := context.WithTimeout(ctx, time.Duration(timeoutS+2)*time.Second)
	defer cancel()
	cmd := exec.CommandContext(cctx, argv[0], argv[1:]...)
	var out bytes.Buffer
	cmd.Stdout = &out
	cmd.Stderr = &out
	t0 := time.Now()
	_ = cmd.Run()
	el := time.Since(t0).Seconds()
	txt := out.String()
	first := strings.TrimSpace(strings.SplitN(txt, "\n", 2)[0])
	res := SolveResult{Solver: sp.name, Seconds: el, Raw: txt, Status: "unknown"}
	if strings.HasPrefix(first, "(error") || strings.Contains(first, "Parse Error") {
		res.Status = "error"
		return res
	}
	switch first {
	case "unsat":
		res.Status = "unsat"
	case "sat":
		res.Status = "sat"
		if i := strings.Index(txt, "\n"); i >= 0 {
			res.Model = txt[i+1:]
		}
	}
	return res
}

// Solve discharges one query (possibly with a lemma variant). workDir receives the .smt2 files.
func Solve(workDir, name, query string, timeoutS int, solverTime *SolverStats) SolveResult {
	return SolveHint(workDir, name, query, timeoutS, solverTime, "")
}

// fastMode: development runs stop after the first solver stage.
var fastMode bool

var (
	hintMu   sync.Mutex
	hintWins = map[string]string{} // hint key -> "solver/variant" that won last time
)

// SolveHint is Solve with a key under which the winning solver/variant is
// remembered, so that sibling obligations try it first.
func SolveHint(workDir, name, query string, timeoutS int, solverTime *SolverStats, hint string) SolveResult {
	variants := strings.Split(query, variantSep)
	var files []string
	for i, q := range variants {
		file := filepath.Join(workDir, fmt.Sprintf("%s_%d.smt2", sanitize(name), i))
		if i == 0 {
			file = filepath.Join(workDir, sanitize(name)+".smt2")
		}
		if err := os.WriteFile(file, []byte(q), 0o644); err != nil {
			return SolveResult{Status: "unknown", Raw: err.Error()}
		}
		files = append(files, file)
	}
	ctx := context.Background()
	type task struct {
		sp   solverSpec
		file string
	}
	taskID := func(t task) string { return t.sp.name + "/" + filepath.Base(t.file)[len(filepath.Base(t.file))-7:] }
	prefer := func(ts []task) []task {
		if hint == "" {
			return ts
		}
		hintMu.Lock()
		w := hintWins[hint]
		hintMu.Unlock()
		if w == "" {
			return ts
		}
		out := make([]task, 0, len(ts))
		for _, t := range ts {
			if t.sp.name+"/"+variantOf(t.file) == w {
				out = append(out, t)
			}
		}
		for _, t := range ts {
			if t.sp.name+"/"+variantOf(t.file) != w {
				out = append(out, t)
			}
		}
		return out
	}
	_ = taskID
	race := func(tasks []task, to int) (SolveResult, bool) {
		tasks = prefer(tasks)
		rctx, cancel := context.WithCancel(ctx)
		defer cancel()
		ch := make(chan SolveResult, len(tasks))
		for i, t := range tasks {
			t := t
			delay := time.Duration(i) * 500 * time.Millisecond
			if len(tasks) > 6 {
				delay = time.Duration(i) * 100 * time.Millisecond
			}
			go func() {
				// staggered start: most goals fall to the first solver within a few hundred ms
				select {
				case <-time.After(delay):
				case <-rctx.Done():
					ch <- SolveResult{Solver: t.sp.name, Status: "unknown"}
					return
				}
				r := runOne(rctx, t.sp, t.file, to)
				r.variant = variantOf(t.file)
				ch <- r
			}()
		}
		var last SolveResult
		var errRes *SolveResult
		for range tasks {
			r := <-ch
			solverTime.add(r)
			if r.Status == "unsat" || r.Status == "sat" {
				if hint != "" {
					hintMu.Lock()
					hintWins[hint] = r.Solver + "/" + r.variant
					hintMu.Unlock()
				}
				return r, true
			}
			if r.Status == "error" && errRes == nil {
				rr := r
				errRes = &rr
			}
			last = r
		}
		if errRes != nil {
			return *errRes, true
		}
		last.Status = "unknown"
		return last, false
	}
	s1 := 4
	if timeoutS < s1 {
		s1 = timeoutS
	}
	// stage 0: quantifier-free queries go to the fastest-starting solver alone
	if !strings.Contains(variants[0], "(forall ") && !strings.Contains(variants[0], "(exists ") {
		if r, done := race([]task{{solvers[1], files[0]}}, s1); done {
			return r
		}
	}
	// stage 1: both z3 versions on every variant, short budget
	var t1 []task
	if len(files) > 1 {
		// queries with a lemma variant: old z3 with lemmas and new z3 without are the usual winners
		t1 = []task{{solvers[1], files[1]}, {solvers[0], files[0]}, {solvers[1], files[0]}, {solvers[0], files[1]}}
	} else {
		t1 = []task{{solvers[1], files[0]}, {solvers[0], files[0]}}
	}
	if r, done := race(t1, s1); done {
		return r
	}
	if timeoutS <= s1 || fastMode {
		return SolveResult{Status: "unknown", Solver: "portfolio"}
	}
	// stage 1.5: seed sweep. Goals that mix e-matching with integer reasoning about element
	// strides (3k+1 != 3m) are decided in milliseconds or not at all depending on the search order;
	// a handful of seeds with pure e-matching finds the short proof when there is one.
	var ts []task
	for seed := 1; seed <= 6; seed++ {
		seed := seed
		ts = append(ts, task{solverSpec{"z3-new", func(f string, t int) []string {
			return []string{"z3-new", fmt.Sprintf("-T:%d", t), "smt.mbqi=false", fmt.Sprintf("smt.random_seed=%d", seed), f}
		}}, files[0]})
	}
	for seed := 1; seed <= 3; seed++ {
		seed := seed
		ts = append(ts, task{solverSpec{"z3", func(f string, t int) []string {
			return []string{"z3", fmt.Sprintf("-T:%d", t), "smt.mbqi=false", fmt.Sprintf("smt.random_seed=%d", seed), f}
		}}, files[0]})
	}
	if r, done := race(ts, s1); done {
		return r
	}
	// stage 2: all solvers, all variants, full budget
	var t2 []task
	for _, f := range files {
		for _, sp := range solvers {
			t2 = append(t2, task{sp, f})
		}
	}
	r, _ := race(t2, timeoutS)
	return r
}

type SolverStats struct {
	mu      sync.Mutex
	Wins    map[string]int
	Seconds map[string]float64
}

func NewSolverStats() *SolverStats {
	return &SolverStats{Wins: map[string]int{}, Seconds: map[string]float64{}}
}

func (s *SolverStats) add(r SolveResult) {
	s.mu.Lock()
	defer s.mu.Unlock()
	if os.Getenv("GOVC_TRACE") != "" {
		fmt.Fprintf(os.Stderr, "trace %s %s %s %.2f\n", r.Solver, r.variant, r.Status, r.Seconds)
	}
	s.Seconds[r.Solver] += r.Seconds
	if r.Status == "unsat" || r.Status == "sat" {
		s.Wins[r.Solver]++
	}
}

func hashString(s string) uint64 {
	var h uint64 = 1469598103934665603
	for i := 0; i < len(s); i++ {
		h ^= uint64(s[i])
		h *= 1099511628211
	}
	return h
}

func variantOf(file string) string {
	if strings.HasSuffix(file, "_1.smt2") {
		return "lemmas"
	}
	return "plain"
}
