package main

// Contract files: //@ lines in zz_contracts_verif.go (repo) and *.spec (extern).

import (
	"fmt"
	"os"
	"path/filepath"
	"regexp"
	"sort"
	"strconv"
	"strings"
	"unicode"
)

// ---------------------------------------------------------------------------
// expression AST

type CExpr interface{ cexpr() }

type (
	CIdent struct{ Name string }
	CInt   struct{ V string }
	CStr   struct{ V string }
	CBool  struct{ V bool }
	CNil   struct{}
	CUnary struct {
		Op string
		X  CExpr
	}
	CBinary struct {
		Op   string
		X, Y CExpr
	}
	CSel struct {
		X    CExpr
		Name string
	}
	CIndex struct{ X, I CExpr }
	CSlice struct{ X, Lo, Hi CExpr }
	CCall  struct {
		Fun  string
		Args []CExpr
	}
	COld struct {
		X     CExpr
		Label string
	}
	CQuant struct {
		Forall bool
		Vars   []CParam
		Body   CExpr
		Trig   []CExpr // optional instantiation pattern: forall x T {e1, e2} :: body
	}
	CIte struct{ C, A, B CExpr }
)

type CParam struct {
	Name string
	Type string
}

func (CIdent) cexpr()  {}
func (CInt) cexpr()    {}
func (CStr) cexpr()    {}
func (CBool) cexpr()   {}
func (CNil) cexpr()    {}
func (CUnary) cexpr()  {}
func (CBinary) cexpr() {}
func (CSel) cexpr()    {}
func (CIndex) cexpr()  {}
func (CSlice) cexpr()  {}
func (CCall) cexpr()   {}
func (COld) cexpr()    {}
func (CQuant) cexpr()  {}
func (CIte) cexpr()    {}

// ---------------------------------------------------------------------------
// lexer

type tok struct {
	k string // "id", "int", "str", "op", "eof"
	s string
}

func lex(src string) ([]tok, error) {
	var out []tok
	i := 0
	for i < len(src) {
		c := src[i]
		switch {
		case c == ' ' || c == '\t' || c == '\n':
			i++
		case unicode.IsLetter(rune(c)) || c == '_':
			j := i
			for j < len(src) && (unicode.IsLetter(rune(src[j])) || unicode.IsDigit(rune(src[j])) || src[j] == '_' || src[j] == '$' || src[j] == '#') {
				j++
			}
			out = append(out, tok{"id", src[i:j]})
			i = j
		case unicode.IsDigit(rune(c)):
			j := i
			for j < len(src) && (unicode.IsDigit(rune(src[j])) || src[j] == 'x' || (src[j] >= 'a' && src[j] <= 'f') || (src[j] >= 'A' && src[j] <= 'F')) {
				j++
			}
			out = append(out, tok{"int", src[i:j]})
			i = j
		case c == '"':
			j := i + 1
			for j < len(src) && src[j] != '"' {
				if src[j] == '\\' {
					j++
				}
				j++
			}
			if j >= len(src) {
				return nil, fmt.Errorf("unterminated string")
			}
			s, err := strconv.Unquote(src[i : j+1])
			if err != nil {
				return nil, err
			}
			out = append(out, tok{"str", s})
			i = j + 1
		default:
			ops := []string{"<==>", "==>", "::", ":=", "==", "!=", "<=", ">=", "&&", "||", "<", ">", "+", "-", "*", "/", "%", "!", "(", ")", "[", "]", ".", ",", ":", "&", "?", "{", "}"}
			matched := false
			for _, op := range ops {
				if strings.HasPrefix(src[i:], op) {
					out = append(out, tok{"op", op})
					i += len(op)
					matched = true
					break
				}
			}
			if !matched {
				return nil, fmt.Errorf("unexpected character %q in %q", c, src)
			}
		}
	}
	out = append(out, tok{"eof", ""})
	return out, nil
}

type parser struct {
	toks []tok
	p    int
	src  string
}

func (p *parser) peek() tok { return p.toks[p.p] }
func (p *parser) next() tok { t := p.toks[p.p]; p.p++; return t }
func (p *parser) isOp(s string) bool {
	t := p.peek()
	return t.k == "op" && t.s == s
}
func (p *parser) accept(s string) bool {
	if p.isOp(s) {
		p.p++
		return true
	}
	return false
}
func (p *parser) expect(s string) {
	if !p.accept(s) {
		panic(fmt.Sprintf("expected %q at token %d (%v) in %q", s, p.p, p.peek(), p.src))
	}
}

func ParseExpr(src string) (e CExpr, err error) {
	toks, err := lex(src)
	if err != nil {
		return nil, err
	}
	p := &parser{toks: toks, src: src}
	defer func() {
		if r := recover(); r != nil {
			err = fmt.Errorf("%v", r)
		}
	}()
	e = p.parseExpr()
	if p.peek().k != "eof" {
		return nil, fmt.Errorf("trailing tokens at %d (%v) in %q", p.p, p.peek(), src)
	}
	return e, nil
}

func (p *parser) parseExpr() CExpr {
	t := p.peek()
	if t.k == "id" && (t.s == "forall" || t.s == "exists") {
		p.next()
		var vars []CParam
		for {
			name := p.next()
			if name.k != "id" {
				panic("quantifier: expected variable name")
			}
			typ := p.parseType()
			vars = append(vars, CParam{name.s, typ})
			if !p.accept(",") {
				break
			}
		}
		var trig []CExpr
		if p.accept("{") {
			for {
				trig = append(trig, p.parseExpr())
				if p.accept("}") {
					break
				}
				p.expect(",")
			}
		}
		p.expect("::")
		body := p.parseExpr()
		return CQuant{Forall: t.s == "forall", Vars: vars, Body: body, Trig: trig}
	}
	return p.parseIff()
}

// parseType reads a type expression and returns it as a string.
func (p *parser) parseType() string {
	switch {
	case p.accept("*"):
		return "*" + p.parseType()
	case p.accept("["):
		p.expect("]")
		return "[]" + p.parseType()
	}
	t := p.next()
	if t.k != "id" {
		panic(fmt.Sprintf("expected type, got %v in %q", t, p.src))
	}
	if t.s == "map" {
		p.expect("[")
		k := p.parseType()
		p.expect("]")
		v := p.parseType()
		return "map[" + k + "]" + v
	}
	name := t.s
	for p.isOp(".") || p.isOp("/") {
		sep := p.next().s
		n := p.next()
		name += sep + n.s
	}
	return name
}

func (p *parser) parseIff() CExpr {
	x := p.parseImpl()
	for p.accept("<==>") {
		y := p.parseImpl()
		x = CBinary{"<==>", x, y}
	}
	return x
}

func (p *parser) parseImpl() CExpr {
	x := p.parseOr()
	if p.accept("==>") {
		y := p.parseImplRHS()
		return CBinary{"==>", x, y}
	}
	return x
}

func (p *parser) parseImplRHS() CExpr {
	t := p.peek()
	if t.k == "id" && (t.s == "forall" || t.s == "exists") {
		return p.parseExpr()
	}
	return p.parseImpl()
}

func (p *parser) parseOr() CExpr {
	x := p.parseAnd()
	for p.accept("||") {
		y := p.parseAnd()
		x = CBinary{"||", x, y}
	}
	return x
}

func (p *parser) parseAnd() CExpr {
	x := p.parseCmp()
	for p.accept("&&") {
		y := p.parseCmp()
		x = CBinary{"&&", x, y}
	}
	return x
}

func (p *parser) parseCmp() CExpr {
	x := p.parseAdd()
	for _, op := range []string{"==", "!=", "<=", ">=", "<", ">"} {
		if p.accept(op) {
			y := p.parseAdd()
			return CBinary{op, x, y}
		}
	}
	return x
}

func (p *parser) parseAdd() CExpr {
	x := p.parseMul()
	for {
		switch {
		case p.accept("+"):
			x = CBinary{"+", x, p.parseMul()}
		case p.accept("-"):
			x = CBinary{"-", x, p.parseMul()}
		default:
			return x
		}
	}
}

func (p *parser) parseMul() CExpr {
	x := p.parseUnary()
	for {
		switch {
		case p.accept("*"):
			x = CBinary{"*", x, p.parseUnary()}
		case p.accept("/"):
			x = CBinary{"/", x, p.parseUnary()}
		case p.accept("%"):
			x = CBinary{"%", x, p.parseUnary()}
		default:
			return x
		}
	}
}

func (p *parser) parseUnary() CExpr {
	switch {
	case p.accept("!"):
		return CUnary{"!", p.parseUnary()}
	case p.accept("-"):
		return CUnary{"-", p.parseUnary()}
	case p.accept("*"):
		return CUnary{"*", p.parseUnary()}
	case p.accept("&"):
		return CUnary{"&", p.parseUnary()}
	}
	return p.parsePostfix()
}

func (p *parser) parsePostfix() CExpr {
	x := p.parsePrimary()
	for {
		switch {
		case p.accept("."):
			n := p.next()
			if n.k != "id" {
				panic("expected field name after '.'")
			}
			x = CSel{x, n.s}
		case p.accept("["):
			if p.accept(":") {
				hi := p.parseExpr()
				p.expect("]")
				x = CSlice{x, nil, hi}
				continue
			}
			i := p.parseExpr()
			if p.accept(":") {
				if p.accept("]") {
					x = CSlice{x, i, nil}
					continue
				}
				hi := p.parseExpr()
				p.expect("]")
				x = CSlice{x, i, hi}
				continue
			}
			p.expect("]")
			x = CIndex{x, i}
		default:
			return x
		}
	}
}

func (p *parser) parsePrimary() CExpr {
	t := p.next()
	switch t.k {
	case "int":
		return CInt{t.s}
	case "str":
		return CStr{t.s}
	case "id":
		switch t.s {
		case "forall", "exists":
			p.p--
			return p.parseExpr()
		case "true":
			return CBool{true}
		case "false":
			return CBool{false}
		case "nil":
			return CNil{}
		case "old":
			p.expect("(")
			x := p.parseExpr()
			p.expect(")")
			return COld{x, ""}
		case "acq":
			p.expect("(")
			x := p.parseExpr()
			p.expect(")")
			return COld{x, "acq"}
		case "ite":
			p.expect("(")
			c := p.parseExpr()
			p.expect(",")
			a := p.parseExpr()
			p.expect(",")
			b := p.parseExpr()
			p.expect(")")
			return CIte{c, a, b}
		}
		// qualified function name pkg.fn( … handled as selector then call? keep simple:
		if p.isOp("(") {
			p.next()
			var args []CExpr
			if !p.accept(")") {
				for {
					args = append(args, p.parseExpr())
					if p.accept(")") {
						break
					}
					p.expect(",")
				}
			}
			return CCall{t.s, args}
		}
		return CIdent{t.s}
	case "op":
		if t.s == "(" {
			x := p.parseExpr()
			p.expect(")")
			return x
		}
	}
	panic(fmt.Sprintf("unexpected token %v in %q", t, p.src))
}

// ---------------------------------------------------------------------------
// contract structures

type Clause struct {
	Kind  string // requires | ensures | invariant | assume | lemma | axiom
	Label string
	Src   string
	Expr  CExpr
	Props []string
	Using []string // labels of quantified assumptions relevant for proving this clause (others are hidden first)
	File  string
	Line  int
}

type FuncContract struct {
	Key           string // canonical function key
	PkgPath       string // package in whose scope type names resolve
	Requires      []*Clause
	Ensures       []*Clause
	AssumesAcq    []*Clause // environment assumptions about the guarded state, assumed right after each lock acquisition
	Assumes       []*Clause // assumed at entry without being checked at call sites (closures: facts on captured variables)
	Modifies      []CExpr
	ModAll        bool
	Pure          bool
	Inline        bool
	MayPanic      bool
	OpaqueStrides bool // index terms of multi-slot arrays through an uninterpreted stride function
	NoBody        bool // extern/trusted: contract is assumed, body not verified
	Fresh         bool // results are fresh allocations
	Props         []string
	Loops         map[int][]*Clause
	File          string
	Line          int
	ParamsAs      []string // optional explicit parameter names (extern functions without names)
	ResultsAs     []string
	IsIface       bool
	FrameStrict   bool
	GhostAssigns  []GhostAssign
	Ats           []*AtBlock
	GhostLocals   map[string]string // ghostlocal name -> type: ghost variables of this one function (zero on entry; only its own at-blocks assign them, so no call changes them)
	StartLoop     int               // verify only from the head of this loop on (the prefix is skipped; the loop invariant is assumed there)
	AutoUse       []string          // quantified assumptions (by label) tried for obligations without a clause (no-panic checks)
}

// AtBlock holds assertions checked right before the n-th call (in source order) whose callee name contains Callee.
type AtBlock struct {
	Callee      string
	Ordinal     int
	Asserts     []*Clause
	Assumes     []*Clause
	Ghosts      []GhostAssign // "ghost x = e" inside an at block: executed at that site, after the assertions
	GhostsAfter []GhostAssign // "ghost_result x = e": executed after the call, with its results bound
	AssumesHere []*Clause     // "assume_here e": assumed right before the call (listed as an assumption)
	seen        bool
}

type GhostAssign struct {
	LHS, RHS CExpr
	Src      string
}

type GhostField struct {
	Name string
	Type string
}

type TypeContract struct {
	Key       string
	PkgPath   string
	Ghost     []GhostField
	GuardedBy map[string][]string
	Invariant []*Clause
	Rely      []*Clause
	Immutable []string
	Received  []*Clause // assume_received: assumed of every value of this type received from a channel
}

type Pred struct {
	Name    string
	PkgPath string
	Params  []CParam
	Body    CExpr
	Src     string
}

type SpecFn struct {
	Name    string
	PkgPath string
	Params  []CParam
	Ret     string
}

type Lemma struct {
	Name    string
	PkgPath string
	Clause  *Clause
	Axiom   bool
}

type GhostVar struct {
	Name    string
	PkgPath string
	Type    string
}

type Contracts struct {
	Funcs     map[string]*FuncContract
	Types     map[string]*TypeContract
	Preds     map[string]*Pred
	Fns       map[string]*SpecFn
	Lemmas    []*Lemma
	GhostVars map[string]*GhostVar
	Files     []string
	InlineRe  []*regexp.Regexp // functions whose key matches are inlined (generated accessors)
	// raw text of extern spec files (for evidence)
	ExternText map[string]string
}

func NewContracts() *Contracts {
	return &Contracts{
		Funcs: map[string]*FuncContract{}, Types: map[string]*TypeContract{}, Preds: map[string]*Pred{},
		Fns: map[string]*SpecFn{}, GhostVars: map[string]*GhostVar{}, ExternText: map[string]string{},
	}
}

var ghostAssignRe = regexp.MustCompile(`[^=!<>]\s=\s[^=]`)

var clauseKeywords = map[string]bool{
	"func": true, "loop": true, "type": true, "pred": true, "fn": true, "axiom": true, "lemma": true, "iface": true,
	"ghostvar": true, "requires": true, "ensures": true, "invariant": true, "modifies": true, "pure": true,
	"may_panic": true, "props": true, "ghost": true, "guarded_by": true, "immutable": true, "assume": true,
	"start_at_loop": true, "opaque_strides": true, "inline_matching": true, "assume_result": true, "at": true, "assert": true, "autouse": true, "assume_at_acquire": true, "assume_received": true, "ghost_result": true, "ghost_here": true, "ghostlocal": true, "assume_here": true, "writes_nothing": true, "fresh": true, "trusted": true, "inline": true, "rely": true, "params": true, "results": true, "package": true,
}

type rawClause struct {
	kw   string
	text string
	line int
}

// readClauses extracts logical clauses from a file. For .go files only //@ lines count.
func readClauses(path string) ([]rawClause, error) {
	data, err := os.ReadFile(path)
	if err != nil {
		return nil, err
	}
	isGo := strings.HasSuffix(path, ".go")
	var out []rawClause
	for i, line := range strings.Split(string(data), "\n") {
		t := strings.TrimSpace(line)
		if isGo {
			if !strings.HasPrefix(t, "//@") {
				continue
			}
			t = strings.TrimSpace(t[3:])
		} else {
			if strings.HasPrefix(t, "//@") {
				t = strings.TrimSpace(t[3:])
			}
		}
		if t == "" || strings.HasPrefix(t, "//") || strings.HasPrefix(t, "#") {
			continue
		}
		// strip trailing comment
		if j := strings.Index(t, " // "); j >= 0 {
			t = strings.TrimSpace(t[:j])
		}
		first := t
		if j := strings.IndexAny(t, " \t"); j >= 0 {
			first = t[:j]
		}
		if clauseKeywords[first] {
			out = append(out, rawClause{kw: first, text: strings.TrimSpace(t[len(first):]), line: i + 1})
		} else if len(out) > 0 {
			out[len(out)-1].text += " " + t
		} else {
			return nil, fmt.Errorf("%s:%d: text before first clause", path, i+1)
		}
	}
	return out, nil
}

// splitLabelProps parses an optional "[label]" prefix and "@C01,C02" suffix.
func splitLabelProps(text string) (label string, props []string, rest string) {
	rest = text
	if strings.HasPrefix(rest, "[") {
		if j := strings.Index(rest, "]"); j > 0 {
			label = rest[1:j]
			rest = strings.TrimSpace(rest[j+1:])
		}
	}
	for {
		j := strings.LastIndex(rest, " @")
		if j < 0 {
			break
		}
		tail := strings.TrimSpace(rest[j+2:])
		ok := tail != ""
		for _, p := range strings.Split(tail, ",") {
			if len(p) < 3 || p[0] != 'C' {
				ok = false
			}
		}
		if !ok {
			break
		}
		props = append(props, strings.Split(tail, ",")...)
		rest = strings.TrimSpace(rest[:j])
	}
	return
}

func parseParams(s string) ([]CParam, error) {
	s = strings.TrimSpace(s)
	if s == "" {
		return nil, nil
	}
	// split on commas outside brackets (generic types: *PriorityQueue[K, V])
	var parts []string
	depth, start := 0, 0
	for i, c := range s {
		switch c {
		case '[':
			depth++
		case ']':
			depth--
		case ',':
			if depth == 0 {
				parts = append(parts, s[start:i])
				start = i + 1
			}
		}
	}
	parts = append(parts, s[start:])
	var out []CParam
	for _, part := range parts {
		part = strings.TrimSpace(part)
		i := strings.IndexAny(part, " \t")
		if i < 0 {
			return nil, fmt.Errorf("bad parameter %q", part)
		}
		name, typ := part[:i], strings.TrimSpace(part[i+1:])
		if name == "" || typ == "" {
			return nil, fmt.Errorf("bad parameter %q", part)
		}
		out = append(out, CParam{name, strings.ReplaceAll(typ, ", ", ",")})
	}
	return out, nil
}

// LoadFile parses one contract file. defaultPkg is the import path used to
// qualify unqualified function names ("" for extern spec files).
func (c *Contracts) LoadFile(path, defaultPkg string, extern bool) error {
	raws, err := readClauses(path)
	if err != nil {
		return err
	}
	c.Files = append(c.Files, path)
	if extern {
		data, _ := os.ReadFile(path)
		c.ExternText[filepath.Base(path)] = string(data)
	}
	var curF *FuncContract
	var curT *TypeContract
	var curLoop int
	pkg := defaultPkg
	qualify := func(name string) string {
		name = strings.TrimSpace(name)
		if pkg == "" || strings.Contains(name, "/") {
			return name
		}
		// "(*T).M", "T.M"?, "f", "f$1" are local; "pkg.f" with a dot before any paren is qualified
		if strings.HasPrefix(name, "(") {
			return pkg + "." + name
		}
		if i := strings.Index(name, "."); i >= 0 {
			return name // already qualified (extern or other package)
		}
		return pkg + "." + name
	}
	mkClause := func(kind string, r rawClause) (*Clause, error) {
		label, props, rest := splitLabelProps(r.text)
		e, err := ParseExpr(rest)
		if err != nil {
			return nil, fmt.Errorf("%s:%d: %v", path, r.line, err)
		}
		var using []string
		if i := strings.Index(label, ";"); i >= 0 {
			u := strings.TrimSpace(label[i+1:])
			label = strings.TrimSpace(label[:i])
			u = strings.TrimSpace(strings.TrimPrefix(u, "using"))
			using = strings.Fields(strings.ReplaceAll(u, ",", " "))
			if len(using) == 0 {
				using = []string{"-"}
			}
		}
		return &Clause{Kind: kind, Label: label, Src: rest, Expr: e, Props: props, Using: using, File: path, Line: r.line}, nil
	}
	for _, r := range raws {
		switch r.kw {
		case "inline_matching":
			re, err := regexp.Compile(strings.TrimSpace(r.text))
			if err != nil {
				return fmt.Errorf("%s:%d: %v", path, r.line, err)
			}
			c.InlineRe = append(c.InlineRe, re)
			curF, curT = nil, nil
		case "package":
			pkg = strings.TrimSpace(r.text)
		case "func", "iface":
			key := qualify(r.text)
			if r.kw == "iface" {
				key = "iface:" + strings.TrimSpace(r.text)
				if pkg != "" && !strings.Contains(r.text, "/") && strings.Count(r.text, ".") == 1 {
					key = "iface:" + pkg + "." + strings.TrimSpace(r.text)
				}
			}
			if _, dup := c.Funcs[key]; dup {
				return fmt.Errorf("%s:%d: duplicate contract for %s", path, r.line, key)
			}
			curF = &FuncContract{Key: key, PkgPath: pkg, Loops: map[int][]*Clause{}, File: path, Line: r.line, NoBody: extern, IsIface: r.kw == "iface"}
			c.Funcs[key] = curF
			curT = nil
			curLoop = 0
		case "at":
			if curF == nil {
				return fmt.Errorf("%s:%d: at outside func", path, r.line)
			}
			f := strings.Fields(r.text)
			if len(f) != 2 || !strings.HasPrefix(f[1], "#") {
				return fmt.Errorf("%s:%d: at <callee> #n", path, r.line)
			}
			n, err := strconv.Atoi(f[1][1:])
			if err != nil {
				return fmt.Errorf("%s:%d: %v", path, r.line, err)
			}
			curF.Ats = append(curF.Ats, &AtBlock{Callee: f[0], Ordinal: n})
			curLoop = -1
		case "ghostlocal":
			f := strings.Fields(r.text)
			if curF == nil || len(f) != 2 {
				return fmt.Errorf("%s:%d: ghostlocal <name> <type> inside a func block", path, r.line)
			}
			if curF.GhostLocals == nil {
				curF.GhostLocals = map[string]string{}
			}
			curF.GhostLocals[f[0]] = f[1]
		case "assume_here":
			if curF == nil || len(curF.Ats) == 0 || curLoop != -1 {
				return fmt.Errorf("%s:%d: assume_here outside an at block", path, r.line)
			}
			cl, err := mkClause("assume", r)
			if err != nil {
				return err
			}
			ab := curF.Ats[len(curF.Ats)-1]
			ab.AssumesHere = append(ab.AssumesHere, cl)
		case "assume_result":
			if curF == nil || len(curF.Ats) == 0 || curLoop != -1 {
				return fmt.Errorf("%s:%d: assume_result outside an at block", path, r.line)
			}
			cl, err := mkClause("assume", r)
			if err != nil {
				return err
			}
			ab := curF.Ats[len(curF.Ats)-1]
			ab.Assumes = append(ab.Assumes, cl)
		case "assert":
			if curF == nil || len(curF.Ats) == 0 || curLoop != -1 {
				return fmt.Errorf("%s:%d: assert outside an at block", path, r.line)
			}
			cl, err := mkClause("assert", r)
			if err != nil {
				return err
			}
			ab := curF.Ats[len(curF.Ats)-1]
			ab.Asserts = append(ab.Asserts, cl)
		case "loop":
			// "loop #2" within current func
			t := strings.TrimSpace(r.text)
			if !strings.HasPrefix(t, "#") || curF == nil {
				return fmt.Errorf("%s:%d: loop must be '#n' inside a func block", path, r.line)
			}
			n, err := strconv.Atoi(strings.Fields(t[1:])[0])
			if err != nil {
				return fmt.Errorf("%s:%d: %v", path, r.line, err)
			}
			curLoop = n
			if _, ok := curF.Loops[n]; !ok {
				curF.Loops[n] = []*Clause{}
			}
		case "type":
			key := qualify(r.text)
			curT = c.Types[key]
			if curT == nil {
				curT = &TypeContract{Key: key, PkgPath: pkg, GuardedBy: map[string][]string{}}
				c.Types[key] = curT
			}
			curF = nil
		case "assume_at_acquire":
			if curF == nil {
				return fmt.Errorf("%s:%d: %s outside func", path, r.line, r.kw)
			}
			cl, err := mkClause("assume", r)
			if err != nil {
				return err
			}
			curF.AssumesAcq = append(curF.AssumesAcq, cl)
		case "requires", "ensures", "assume":
			if curF == nil {
				return fmt.Errorf("%s:%d: %s outside func", path, r.line, r.kw)
			}
			cl, err := mkClause(r.kw, r)
			if err != nil {
				return err
			}
			switch r.kw {
			case "requires":
				curF.Requires = append(curF.Requires, cl)
			case "ensures":
				curF.Ensures = append(curF.Ensures, cl)
			case "assume":
				curF.Assumes = append(curF.Assumes, cl)
			}
		case "invariant":
			cl, err := mkClause("invariant", r)
			if err != nil {
				return err
			}
			switch {
			case curF != nil && curLoop > 0:
				curF.Loops[curLoop] = append(curF.Loops[curLoop], cl)
			case curT != nil:
				curT.Invariant = append(curT.Invariant, cl)
			default:
				return fmt.Errorf("%s:%d: invariant outside loop/type", path, r.line)
			}
		case "writes_nothing":
			// the function (typically a goroutine body) writes no memory and no map of its caller's world
			if curF == nil {
				return fmt.Errorf("%s:%d: writes_nothing outside func", path, r.line)
			}
			curF.FrameStrict = true
		case "assume_received":
			if curT == nil {
				return fmt.Errorf("%s:%d: assume_received outside type", path, r.line)
			}
			cl, err := mkClause("assume", r)
			if err != nil {
				return err
			}
			curT.Received = append(curT.Received, cl)
		case "rely":
			if curT == nil {
				return fmt.Errorf("%s:%d: rely outside type", path, r.line)
			}
			cl, err := mkClause("rely", r)
			if err != nil {
				return err
			}
			curT.Rely = append(curT.Rely, cl)
		case "modifies":
			if curF == nil {
				return fmt.Errorf("%s:%d: modifies outside func", path, r.line)
			}
			if strings.TrimSpace(r.text) == "*" {
				curF.ModAll = true
				break
			}
			for _, part := range splitTop(r.text) {
				e, err := ParseExpr(part)
				if err != nil {
					return fmt.Errorf("%s:%d: %v", path, r.line, err)
				}
				curF.Modifies = append(curF.Modifies, e)
			}
		case "start_at_loop":
			n, err := strconv.Atoi(strings.TrimPrefix(strings.TrimSpace(r.text), "#"))
			if err != nil {
				return fmt.Errorf("%s:%d: start_at_loop #n", path, r.line)
			}
			curF.StartLoop = n
		case "autouse":
			curF.AutoUse = strings.Fields(strings.ReplaceAll(r.text, ",", " "))
		case "pure":
			curF.Pure = true
		case "inline":
			curF.Inline = true
		case "may_panic":
			curF.MayPanic = true
		case "opaque_strides":
			if curF == nil {
				return fmt.Errorf("%s:%d: opaque_strides outside func", path, r.line)
			}
			curF.OpaqueStrides = true
		case "trusted":
			curF.NoBody = true
		case "fresh":
			curF.Fresh = true
		case "params":
			curF.ParamsAs = strings.Fields(strings.ReplaceAll(r.text, ",", " "))
		case "results":
			curF.ResultsAs = strings.Fields(strings.ReplaceAll(r.text, ",", " "))
		case "props":
			ps := strings.Fields(strings.ReplaceAll(r.text, ",", " "))
			if curF != nil {
				curF.Props = append(curF.Props, ps...)
			}
		case "ghost_result":
			if curF == nil || curLoop != -1 || len(curF.Ats) == 0 {
				return fmt.Errorf("%s:%d: ghost_result outside an at block", path, r.line)
			}
			{
				m := ghostAssignRe.FindStringIndex(r.text)
				if m == nil {
					return fmt.Errorf("%s:%d: ghost_result <lvalue> = <expr>", path, r.line)
				}
				lhs, err := ParseExpr(r.text[:m[0]+1])
				if err != nil {
					return fmt.Errorf("%s:%d: %v", path, r.line, err)
				}
				rhs, err := ParseExpr(r.text[m[1]-1:])
				if err != nil {
					return fmt.Errorf("%s:%d: %v", path, r.line, err)
				}
				ab := curF.Ats[len(curF.Ats)-1]
				ab.GhostsAfter = append(ab.GhostsAfter, GhostAssign{lhs, rhs, r.text})
			}
		case "ghost_here":
			if curF == nil || curLoop != -1 || len(curF.Ats) == 0 {
				return fmt.Errorf("%s:%d: ghost_here outside an at block", path, r.line)
			}
			{
				m := ghostAssignRe.FindStringIndex(r.text)
				if m == nil {
					return fmt.Errorf("%s:%d: ghost <lvalue> = <expr>", path, r.line)
				}
				lhs, err := ParseExpr(r.text[:m[0]+1])
				if err != nil {
					return fmt.Errorf("%s:%d: %v", path, r.line, err)
				}
				rhs, err := ParseExpr(r.text[m[1]-1:])
				if err != nil {
					return fmt.Errorf("%s:%d: %v", path, r.line, err)
				}
				ab := curF.Ats[len(curF.Ats)-1]
				ab.Ghosts = append(ab.Ghosts, GhostAssign{lhs, rhs, r.text})
			}
		case "ghost":
			if curF != nil {
				m := ghostAssignRe.FindStringIndex(r.text)
				if m == nil {
					return fmt.Errorf("%s:%d: ghost <lvalue> = <expr>", path, r.line)
				}
				lhs, err := ParseExpr(r.text[:m[0]+1])
				if err != nil {
					return fmt.Errorf("%s:%d: %v", path, r.line, err)
				}
				rhs, err := ParseExpr(r.text[m[1]-1:])
				if err != nil {
					return fmt.Errorf("%s:%d: %v", path, r.line, err)
				}
				curF.GhostAssigns = append(curF.GhostAssigns, GhostAssign{lhs, rhs, r.text})
				break
			}
			if curT == nil {
				return fmt.Errorf("%s:%d: ghost field outside type", path, r.line)
			}
			f := strings.Fields(r.text)
			if len(f) != 2 {
				return fmt.Errorf("%s:%d: ghost <name> <type>", path, r.line)
			}
			curT.Ghost = append(curT.Ghost, GhostField{f[0], f[1]})
		case "guarded_by":
			if curT == nil {
				return fmt.Errorf("%s:%d: guarded_by outside type", path, r.line)
			}
			parts := strings.SplitN(r.text, ":", 2)
			if len(parts) != 2 {
				return fmt.Errorf("%s:%d: guarded_by mu: f1, f2", path, r.line)
			}
			mu := strings.TrimSpace(parts[0])
			curT.GuardedBy[mu] = append(curT.GuardedBy[mu], strings.Fields(strings.ReplaceAll(parts[1], ",", " "))...)
		case "immutable":
			if curT == nil {
				return fmt.Errorf("%s:%d: immutable outside type", path, r.line)
			}
			curT.Immutable = append(curT.Immutable, strings.Fields(strings.ReplaceAll(r.text, ",", " "))...)
		case "pred":
			// pred name(params) := expr
			i := strings.Index(r.text, "(")
			j := strings.Index(r.text, ")")
			k := strings.Index(r.text, ":=")
			if i < 0 || j < i || k < j {
				return fmt.Errorf("%s:%d: pred name(params) := expr", path, r.line)
			}
			ps, err := parseParams(r.text[i+1 : j])
			if err != nil {
				return fmt.Errorf("%s:%d: %v", path, r.line, err)
			}
			body, err := ParseExpr(r.text[k+2:])
			if err != nil {
				return fmt.Errorf("%s:%d: %v", path, r.line, err)
			}
			name := strings.TrimSpace(r.text[:i])
			c.Preds[name] = &Pred{Name: name, PkgPath: pkg, Params: ps, Body: body, Src: r.text}
			curF, curT = nil, nil
		case "fn":
			// fn name(params) rettype
			i := strings.Index(r.text, "(")
			j := strings.LastIndex(r.text, ")")
			if i < 0 || j < i {
				return fmt.Errorf("%s:%d: fn name(params) type", path, r.line)
			}
			ps, err := parseParams(r.text[i+1 : j])
			if err != nil {
				return fmt.Errorf("%s:%d: %v", path, r.line, err)
			}
			name := strings.TrimSpace(r.text[:i])
			c.Fns[name] = &SpecFn{Name: name, PkgPath: pkg, Params: ps, Ret: strings.TrimSpace(r.text[j+1:])}
			curF, curT = nil, nil
		case "axiom", "lemma":
			parts := strings.SplitN(r.text, ":", 2)
			if len(parts) != 2 {
				return fmt.Errorf("%s:%d: %s name: expr", path, r.line, r.kw)
			}
			rr := r
			rr.text = parts[1]
			cl, err := mkClause(r.kw, rr)
			if err != nil {
				return err
			}
			nameProps := strings.Fields(parts[0])
			lm := &Lemma{Name: nameProps[0], PkgPath: pkg, Clause: cl, Axiom: r.kw == "axiom"}
			for _, np := range nameProps[1:] {
				cl.Props = append(cl.Props, strings.TrimPrefix(np, "@"))
			}
			c.Lemmas = append(c.Lemmas, lm)
			curF, curT = nil, nil
		case "ghostvar":
			f := strings.Fields(r.text)
			if len(f) != 2 {
				return fmt.Errorf("%s:%d: ghostvar <name> <type>", path, r.line)
			}
			c.GhostVars[f[0]] = &GhostVar{Name: f[0], PkgPath: pkg, Type: f[1]}
			curF, curT = nil, nil
		}
	}
	return nil
}

// splitTop splits on commas at nesting depth 0.
func splitTop(s string) []string {
	var out []string
	depth := 0
	start := 0
	for i, c := range s {
		switch c {
		case '(', '[':
			depth++
		case ')', ']':
			depth--
		case ',':
			if depth == 0 {
				out = append(out, strings.TrimSpace(s[start:i]))
				start = i + 1
			}
		}
	}
	if strings.TrimSpace(s[start:]) != "" {
		out = append(out, strings.TrimSpace(s[start:]))
	}
	return out
}

func (c *Contracts) sortedFuncKeys() []string {
	var ks []string
	for k := range c.Funcs {
		ks = append(ks, k)
	}
	sort.Strings(ks)
	return ks
}
