package main

// SMT term layer: small typed AST with light simplification, symbol registry and
// SMT-LIB2 printing.

import (
	"fmt"
	"math/big"
	"sort"
	"strings"
)

type Sort string

const (
	SInt  Sort = "Int"
	SBool Sort = "Bool"
	SStr  Sort = "Str"
	SReal Sort = "Real"
)

func ArraySort(idx, elem Sort) Sort { return Sort("(Array " + string(idx) + " " + string(elem) + ")") }

// elemSort of an array sort "(Array I E)".
func (s Sort) elem() Sort {
	str := string(s)
	if !strings.HasPrefix(str, "(Array ") {
		panic("not an array sort: " + str)
	}
	body := str[len("(Array ") : len(str)-1]
	// split top-level into idx and elem
	depth := 0
	for i, c := range body {
		switch c {
		case '(':
			depth++
		case ')':
			depth--
		case ' ':
			if depth == 0 {
				return Sort(body[i+1:])
			}
		}
	}
	panic("bad array sort " + str)
}

func (s Sort) index() Sort {
	str := string(s)
	body := str[len("(Array ") : len(str)-1]
	depth := 0
	for i, c := range body {
		switch c {
		case '(':
			depth++
		case ')':
			depth--
		case ' ':
			if depth == 0 {
				return Sort(body[:i])
			}
		}
	}
	panic("bad array sort " + str)
}

type Term struct {
	op   string // "const" (symbol), "int", "bool", or an SMT operator / function name
	name string // for const
	ival *big.Int
	bval bool
	args []*Term
	sort Sort
	// quantifier
	bound []*Term // bound variables (const terms) for forall/exists
	patN  int     // for "!": number of trailing args that only carry the pattern terms (not printed)
	str   string  // cached rendering
}

func (t *Term) Sort() Sort { return t.sort }

var (
	TTrue  = &Term{op: "bool", bval: true, sort: SBool}
	TFalse = &Term{op: "bool", bval: false, sort: SBool}
)

func IntLit(v int64) *Term { return &Term{op: "int", ival: big.NewInt(v), sort: SInt} }
func BigLit(v *big.Int) *Term {
	return &Term{op: "int", ival: new(big.Int).Set(v), sort: SInt}
}
func BoolLit(b bool) *Term {
	if b {
		return TTrue
	}
	return TFalse
}

func (t *Term) IsInt() (*big.Int, bool) {
	if t.op == "int" {
		return t.ival, true
	}
	return nil, false
}
func (t *Term) IsTrue() bool  { return t.op == "bool" && t.bval }
func (t *Term) IsFalse() bool { return t.op == "bool" && !t.bval }

// ---------------------------------------------------------------------------
// symbol registry

type Decl struct {
	Name string
	Args []Sort
	Ret  Sort
}

type Symbols struct {
	decls     map[string]*Decl
	sorts     map[string]bool
	n         int
	datatypes map[string]string
}

func NewSymbols() *Symbols {
	return &Symbols{decls: map[string]*Decl{}, sorts: map[string]bool{}}
}

func sanitize(s string) string {
	var b strings.Builder
	for _, c := range s {
		switch {
		case c >= 'a' && c <= 'z', c >= 'A' && c <= 'Z', c >= '0' && c <= '9', c == '_', c == '.', c == '$', c == '!', c == '@':
			b.WriteRune(c)
		default:
			b.WriteByte('_')
		}
	}
	return b.String()
}

// Fresh declares a fresh constant of the given sort.
func (sy *Symbols) Fresh(hint string, s Sort) *Term {
	sy.n++
	name := fmt.Sprintf("%s!%d", sanitize(hint), sy.n)
	sy.decls[name] = &Decl{Name: name, Ret: s}
	return &Term{op: "const", name: name, sort: s}
}

// Named declares (or returns) a constant with exactly this name.
func (sy *Symbols) Named(name string, s Sort) *Term {
	name = sanitize(name)
	if d, ok := sy.decls[name]; ok {
		if d.Ret != s || len(d.Args) != 0 {
			panic(fmt.Sprintf("symbol %s redeclared with different sort %s vs %s", name, d.Ret, s))
		}
	} else {
		sy.decls[name] = &Decl{Name: name, Ret: s}
	}
	return &Term{op: "const", name: name, sort: s}
}

// Func declares an uninterpreted function.
func (sy *Symbols) Func(name string, args []Sort, ret Sort) *Decl {
	name = sanitize(name)
	if d, ok := sy.decls[name]; ok {
		return d
	}
	d := &Decl{Name: name, Args: args, Ret: ret}
	sy.decls[name] = d
	return d
}

func (sy *Symbols) App(name string, ret Sort, args ...*Term) *Term {
	as := make([]Sort, len(args))
	for i, a := range args {
		as[i] = a.sort
	}
	d := sy.Func(name, as, ret)
	if len(d.Args) != len(args) {
		panic("arity mismatch for " + name)
	}
	return &Term{op: d.Name, args: args, sort: d.Ret}
}

// ---------------------------------------------------------------------------
// constructors with light simplification

func mk(op string, s Sort, args ...*Term) *Term { return &Term{op: op, args: args, sort: s} }

func Not(a *Term) *Term {
	if a.IsTrue() {
		return TFalse
	}
	if a.IsFalse() {
		return TTrue
	}
	if a.op == "not" {
		return a.args[0]
	}
	return mk("not", SBool, a)
}

func And(as ...*Term) *Term {
	var out []*Term
	for _, a := range as {
		if a == nil || a.IsTrue() {
			continue
		}
		if a.IsFalse() {
			return TFalse
		}
		if a.op == "and" {
			out = append(out, a.args...)
		} else {
			out = append(out, a)
		}
	}
	switch len(out) {
	case 0:
		return TTrue
	case 1:
		return out[0]
	}
	return mk("and", SBool, out...)
}

func Or(as ...*Term) *Term {
	var out []*Term
	for _, a := range as {
		if a == nil || a.IsFalse() {
			continue
		}
		if a.IsTrue() {
			return TTrue
		}
		if a.op == "or" {
			out = append(out, a.args...)
		} else {
			out = append(out, a)
		}
	}
	switch len(out) {
	case 0:
		return TFalse
	case 1:
		return out[0]
	}
	return mk("or", SBool, out...)
}

func Implies(a, b *Term) *Term {
	if a.IsTrue() {
		return b
	}
	if a.IsFalse() || b.IsTrue() {
		return TTrue
	}
	if b.IsFalse() {
		return Not(a)
	}
	return mk("=>", SBool, a, b)
}

func Iff(a, b *Term) *Term { return Eq(a, b) }

func Ite(c, a, b *Term) *Term {
	if c.IsTrue() {
		return a
	}
	if c.IsFalse() {
		return b
	}
	if a.String() == b.String() {
		return a
	}
	if a.sort == SBool {
		if a.IsTrue() && b.IsFalse() {
			return c
		}
		if a.IsFalse() && b.IsTrue() {
			return Not(c)
		}
	}
	return mk("ite", a.sort, c, a, b)
}

func Eq(a, b *Term) *Term {
	if a.sort != b.sort {
		panic(fmt.Sprintf("Eq sort mismatch: %s:%s vs %s:%s", a, a.sort, b, b.sort))
	}
	if ai, ok := a.IsInt(); ok {
		if bi, ok := b.IsInt(); ok {
			return BoolLit(ai.Cmp(bi) == 0)
		}
	}
	if a.op == "bool" && b.op == "bool" {
		return BoolLit(a.bval == b.bval)
	}
	if a.op == "bool" {
		if a.bval {
			return b
		}
		return Not(b)
	}
	if b.op == "bool" {
		if b.bval {
			return a
		}
		return Not(a)
	}
	if a.String() == b.String() {
		return TTrue
	}
	// x + c1 == x + c2 style folding
	if a.sort == SInt {
		ba, ca := splitConst(a)
		bb, cb := splitConst(b)
		if ba != nil && bb != nil && ba.String() == bb.String() {
			return BoolLit(ca.Cmp(cb) == 0)
		}
	}
	return mk("=", SBool, a, b)
}

func Neq(a, b *Term) *Term { return Not(Eq(a, b)) }

// splitConst decomposes t into base + c where c is a literal (base may be nil for pure literal).
func splitConst(t *Term) (*Term, *big.Int) {
	if v, ok := t.IsInt(); ok {
		return nil, v
	}
	if t.op == "+" && len(t.args) == 2 {
		if v, ok := t.args[1].IsInt(); ok {
			return t.args[0], v
		}
		if v, ok := t.args[0].IsInt(); ok {
			return t.args[1], v
		}
	}
	return t, big.NewInt(0)
}

func Add(a, b *Term) *Term {
	ba, ca := splitConst(a)
	bb, cb := splitConst(b)
	c := new(big.Int).Add(ca, cb)
	var base *Term
	switch {
	case ba == nil && bb == nil:
		return BigLit(c)
	case ba == nil:
		base = bb
	case bb == nil:
		base = ba
	default:
		base = mk("+", SInt, ba, bb)
	}
	if c.Sign() == 0 {
		return base
	}
	return mk("+", SInt, base, BigLit(c))
}

func Neg(a *Term) *Term {
	if v, ok := a.IsInt(); ok {
		return BigLit(new(big.Int).Neg(v))
	}
	return mk("-", SInt, a)
}

func Sub(a, b *Term) *Term {
	if v, ok := b.IsInt(); ok {
		return Add(a, BigLit(new(big.Int).Neg(v)))
	}
	if a.String() == b.String() {
		return IntLit(0)
	}
	ba, ca := splitConst(a)
	bb, cb := splitConst(b)
	if ba != nil && bb != nil && ba.String() == bb.String() {
		return BigLit(new(big.Int).Sub(ca, cb))
	}
	return mk("-", SInt, a, b)
}

func Mul(a, b *Term) *Term {
	if av, ok := a.IsInt(); ok {
		if bv, ok := b.IsInt(); ok {
			return BigLit(new(big.Int).Mul(av, bv))
		}
		if av.Sign() == 0 {
			return IntLit(0)
		}
		if av.Cmp(big.NewInt(1)) == 0 {
			return b
		}
	}
	if bv, ok := b.IsInt(); ok {
		if bv.Sign() == 0 {
			return IntLit(0)
		}
		if bv.Cmp(big.NewInt(1)) == 0 {
			return a
		}
	}
	return mk("*", SInt, a, b)
}

func cmpFold(op string, a, b *Term) *Term {
	if av, ok := a.IsInt(); ok {
		if bv, ok := b.IsInt(); ok {
			c := av.Cmp(bv)
			switch op {
			case "<":
				return BoolLit(c < 0)
			case "<=":
				return BoolLit(c <= 0)
			case ">":
				return BoolLit(c > 0)
			case ">=":
				return BoolLit(c >= 0)
			}
		}
	}
	ba, ca := splitConst(a)
	bb, cb := splitConst(b)
	if ba != nil && bb != nil && ba.String() == bb.String() {
		c := ca.Cmp(cb)
		switch op {
		case "<":
			return BoolLit(c < 0)
		case "<=":
			return BoolLit(c <= 0)
		case ">":
			return BoolLit(c > 0)
		case ">=":
			return BoolLit(c >= 0)
		}
	}
	return mk(op, SBool, a, b)
}

func Lt(a, b *Term) *Term { return cmpFold("<", a, b) }
func Le(a, b *Term) *Term { return cmpFold("<=", a, b) }
func Gt(a, b *Term) *Term { return cmpFold(">", a, b) }
func Ge(a, b *Term) *Term { return cmpFold(">=", a, b) }

// SMT-LIB integer div/mod (floor semantic for positive divisor).
func SDiv(a, b *Term) *Term {
	if av, ok := a.IsInt(); ok {
		if bv, ok := b.IsInt(); ok && bv.Sign() > 0 {
			q := new(big.Int)
			m := new(big.Int)
			q.DivMod(av, bv, m)
			return BigLit(q)
		}
	}
	return mk("div", SInt, a, b)
}
func SMod(a, b *Term) *Term {
	if av, ok := a.IsInt(); ok {
		if bv, ok := b.IsInt(); ok && bv.Sign() > 0 {
			q := new(big.Int)
			m := new(big.Int)
			q.DivMod(av, bv, m)
			return BigLit(m)
		}
	}
	return mk("mod", SInt, a, b)
}

func Select(arr, idx *Term) *Term {
	// read-over-write with syntactic decision
	if strings.HasPrefix(arr.op, "(as const") {
		return arr.args[0]
	}
	for arr.op == "store" {
		i := arr.args[1]
		e := Eq(i, idx)
		if e.IsTrue() {
			return arr.args[2]
		}
		if e.IsFalse() {
			arr = arr.args[0]
			continue
		}
		break
	}
	return mk("select", arr.sort.elem(), arr, idx)
}

func Store(arr, idx, val *Term) *Term {
	if val.sort != arr.sort.elem() {
		panic(fmt.Sprintf("Store sort mismatch: array %s value %s:%s", arr.sort, val, val.sort))
	}
	return mk("store", arr.sort, arr, idx, val)
}

func Forall(bound []*Term, body *Term) *Term {
	if body.IsTrue() || len(bound) == 0 {
		return body
	}
	// distribute over conjunctions: many small quantified facts are far easier
	// for the solvers than one quantified conjunction
	if body.op == "and" {
		parts := make([]*Term, len(body.args))
		for i, a := range body.args {
			parts[i] = Forall(bound, a)
		}
		return And(parts...)
	}
	if body.op == "=>" && body.args[1].op == "and" {
		parts := make([]*Term, len(body.args[1].args))
		for i, a := range body.args[1].args {
			parts[i] = Forall(bound, Implies(body.args[0], a))
		}
		return And(parts...)
	}
	return &Term{op: "forall", bound: bound, args: []*Term{body}, sort: SBool}
}

// ForallPat is Forall with an explicit instantiation pattern (multi-pattern of the given terms).
func ForallPat(bound []*Term, body *Term, pats []*Term) *Term {
	if len(pats) == 0 {
		return Forall(bound, body)
	}
	if body.IsTrue() || len(bound) == 0 {
		return body
	}
	if body.op == "and" {
		parts := make([]*Term, len(body.args))
		for i, a := range body.args {
			parts[i] = ForallPat(bound, a, pats)
		}
		return And(parts...)
	}
	if body.op == "=>" && body.args[1].op == "and" {
		parts := make([]*Term, len(body.args[1].args))
		for i, a := range body.args[1].args {
			parts[i] = ForallPat(bound, Implies(body.args[0], a), pats)
		}
		return And(parts...)
	}
	var ps []string
	for _, p := range pats {
		ps = append(ps, p.String())
	}
	wrapped := &Term{op: "!", args: append([]*Term{body, {op: ":pattern", sort: SBool}, {op: "(" + strings.Join(ps, " ") + ")", sort: SBool}}, pats...), sort: SBool, patN: len(pats)}
	return &Term{op: "forall", bound: bound, args: []*Term{wrapped}, sort: SBool}
}

func hasQuantifier(t *Term) bool {
	if t.op == "forall" || t.op == "exists" {
		return true
	}
	for _, a := range t.args {
		if hasQuantifier(a) {
			return true
		}
	}
	return false
}

func Exists(bound []*Term, body *Term) *Term {
	if body.IsFalse() || len(bound) == 0 {
		return body
	}
	return &Term{op: "exists", bound: bound, args: []*Term{body}, sort: SBool}
}

// ConstArray is ((as const SORT) v).
func ConstArray(s Sort, v *Term) *Term {
	return &Term{op: "(as const " + string(s) + ")", args: []*Term{v}, sort: s}
}

func Distinct(as ...*Term) *Term {
	if len(as) < 2 {
		return TTrue
	}
	return mk("distinct", SBool, as...)
}

// ---------------------------------------------------------------------------
// printing

func (t *Term) String() string {
	if t.str != "" {
		return t.str
	}
	var s string
	switch t.op {
	case "const":
		s = t.name
	case "int":
		if t.ival.Sign() < 0 {
			s = "(- " + new(big.Int).Neg(t.ival).String() + ")"
		} else {
			s = t.ival.String()
		}
	case "bool":
		if t.bval {
			s = "true"
		} else {
			s = "false"
		}
	case "forall", "exists":
		var b strings.Builder
		b.WriteString("(" + t.op + " (")
		for _, v := range t.bound {
			b.WriteString("(" + v.name + " " + string(v.sort) + ")")
		}
		b.WriteString(") " + t.args[0].String() + ")")
		s = b.String()
	default:
		if len(t.args) == 0 {
			s = t.op
		} else {
			var b strings.Builder
			b.WriteString("(" + t.op)
			for _, a := range t.args[:len(t.args)-t.patN] {
				b.WriteByte(' ')
				b.WriteString(a.String())
			}
			b.WriteByte(')')
			s = b.String()
		}
	}
	t.str = s
	return s
}

// collectSyms gathers names of free symbols used in t.
func collectSyms(t *Term, bound map[string]bool, out map[string]bool) {
	switch t.op {
	case "const":
		if !bound[t.name] {
			out[t.name] = true
		}
		return
	case "int", "bool":
		return
	case "forall", "exists":
		nb := map[string]bool{}
		for k := range bound {
			nb[k] = true
		}
		for _, v := range t.bound {
			nb[v.name] = true
		}
		collectSyms(t.args[0], nb, out)
		return
	}
	out[t.op] = true
	for _, a := range t.args {
		collectSyms(a, bound, out)
	}
}

// substitute replaces constants by name.
func substitute(t *Term, m map[string]*Term) *Term {
	switch t.op {
	case "const":
		if r, ok := m[t.name]; ok {
			return r
		}
		return t
	case "int", "bool":
		return t
	case "forall", "exists":
		return &Term{op: t.op, bound: t.bound, args: []*Term{substitute(t.args[0], m)}, sort: t.sort}
	}
	args := make([]*Term, len(t.args))
	changed := false
	for i, a := range t.args {
		args[i] = substitute(a, m)
		if args[i] != a {
			changed = true
		}
	}
	if !changed {
		return t
	}
	return &Term{op: t.op, args: args, sort: t.sort}
}

// Query renders a self-contained SMT-LIB2 script: assumptions ∧ ¬goal.
// Axioms are background formulas (already closed).
func (sy *Symbols) Query(axioms []*Term, assumptions []*Term, goal *Term, wantModel bool) string {
	used := map[string]bool{}
	all := make([]*Term, 0, len(axioms)+len(assumptions)+1)
	all = append(all, axioms...)
	all = append(all, assumptions...)
	if goal != nil {
		all = append(all, goal)
	}
	for _, t := range all {
		collectSyms(t, map[string]bool{}, used)
	}
	var names []string
	for n := range used {
		if _, ok := sy.decls[n]; ok {
			names = append(names, n)
		}
	}
	sort.Strings(names)
	var b strings.Builder
	if wantModel {
		b.WriteString("(set-option :produce-models true)\n")
	}
	b.WriteString("(set-logic ALL)\n")
	b.WriteString("(declare-sort Str 0)\n")
	{
		var dts []string
		for n := range sy.datatypes {
			dts = append(dts, n)
		}
		sort.Strings(dts)
		for _, n := range dts {
			b.WriteString(sy.datatypes[n] + "\n")
		}
	}
	for _, n := range names {
		d := sy.decls[n]
		if len(d.Args) == 0 {
			fmt.Fprintf(&b, "(declare-const %s %s)\n", d.Name, d.Ret)
		} else {
			as := make([]string, len(d.Args))
			for i, a := range d.Args {
				as[i] = string(a)
			}
			fmt.Fprintf(&b, "(declare-fun %s (%s) %s)\n", d.Name, strings.Join(as, " "), d.Ret)
		}
	}
	for _, a := range axioms {
		fmt.Fprintf(&b, "(assert %s)\n", a)
	}
	for _, a := range assumptions {
		if a.IsTrue() {
			continue
		}
		fmt.Fprintf(&b, "(assert %s)\n", a)
	}
	if goal != nil {
		// a universally quantified goal is skolemised here (the solvers' own treatment of a negated
		// quantifier carrying a pattern annotation turned out to be much weaker)
		g := goal
		for g.op == "forall" && len(g.args) == 1 {
			for _, bv := range g.bound {
				fmt.Fprintf(&b, "(declare-const %s %s)\n", bv.String(), bv.sort)
			}
			g = g.args[0]
			if g.op == "!" && len(g.args) > 0 {
				g = g.args[0]
			}
		}
		fmt.Fprintf(&b, "(assert (not %s))\n", g)
	}
	b.WriteString("(check-sat)\n")
	if wantModel {
		b.WriteString("(get-model)\n")
	}
	return b.String()
}

// opaqueStride: when set, the offset of element i in an array of multi-slot elements is written
// stride<N>(i) instead of N*i. The solvers normalise N*(k+1) to N*k+N, after which the term no
// longer matches an instantiation pattern of the form off+N*?i; an uninterpreted stride function
// (with the axiom stride<N>(x) = N*x, instantiated per stride term) keeps index terms matchable.
var opaqueStride bool
var strideSy *Symbols

func strideOf(x *Term, es int64) *Term {
	if es == 1 {
		return x
	}
	if _, isLit := x.IsInt(); isLit || !opaqueStride || strideSy == nil {
		return Mul(x, IntLit(es))
	}
	return strideSy.App(fmt.Sprintf("stride%d", es), SInt, x)
}
