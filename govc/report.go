package main

// Property checks: obligation selection, known findings, violations, evidence.

import (
	"bufio"
	"encoding/json"
	"fmt"
	"go/types"
	"os"
	"path/filepath"
	"sort"
	"strconv"
	"strings"
	"time"
)

type knownFinding struct {
	Property   string
	Obligation string
	What       string
	Fixed      bool
}

func loadKnownFindings(path string) []knownFinding {
	f, err := os.Open(path)
	if err != nil {
		return nil
	}
	defer f.Close()
	var out []knownFinding
	sc := bufio.NewScanner(f)
	for sc.Scan() {
		line := strings.TrimSpace(sc.Text())
		if line == "" || strings.HasPrefix(line, "#") {
			continue
		}
		var kf knownFinding
		switch {
		case strings.HasPrefix(line, "finding:"):
			line = strings.TrimSpace(strings.TrimPrefix(line, "finding:"))
		case strings.HasPrefix(line, "fixed:"):
			kf.Fixed = true
			line = strings.TrimSpace(strings.TrimPrefix(line, "fixed:"))
		default:
			continue
		}
		for _, f := range splitFields(line) {
			switch {
			case strings.HasPrefix(f, "property="):
				kf.Property = strings.TrimPrefix(f, "property=")
			case strings.HasPrefix(f, "obligation="):
				kf.Obligation = strings.Trim(strings.TrimPrefix(f, "obligation="), `"`)
			case strings.HasPrefix(f, "what="):
				kf.What = strings.Trim(strings.TrimPrefix(f, "what="), `"`)
			}
		}
		out = append(out, kf)
	}
	return out
}

// splitFields splits on spaces outside double quotes.
func splitFields(s string) []string {
	var out []string
	var cur strings.Builder
	inq := false
	for _, c := range s {
		switch {
		case c == '"':
			inq = !inq
			cur.WriteRune(c)
		case c == ' ' && !inq:
			if cur.Len() > 0 {
				out = append(out, cur.String())
				cur.Reset()
			}
		default:
			cur.WriteRune(c)
		}
	}
	if cur.Len() > 0 {
		out = append(out, cur.String())
	}
	return out
}

func hasProp(props []string, p string) bool {
	for _, x := range props {
		if x == p {
			return true
		}
	}
	return false
}

type evidence struct {
	PropertyID  string         `json:"property_id"`
	Tier        string         `json:"tier"`
	Seed        int            `json:"seed"`
	Level       string         `json:"level"`
	Coverage    map[string]any `json:"coverage"`
	Assumptions []string       `json:"assumptions"`
	WallS       float64        `json:"wall_s"`
	Violations  int            `json:"violations"`
}

// baseName strips the instance ordinal "(k)" from an obligation name.
func baseName(n string) string {
	if i := strings.LastIndex(n, "]("); i >= 0 && strings.HasSuffix(n, ")") {
		return n[:i+1]
	}
	return n
}

func (e *Engine) checkProperty(prop, tier, verif string, t0 time.Time) int {
	seed, _ := strconv.Atoi(os.Getenv("VERIF_SEED"))
	var targets []string
	for _, k := range e.ct.sortedFuncKeys() {
		fc := e.ct.Funcs[k]
		if fc.NoBody || fc.IsIface || !hasProp(fc.Props, prop) {
			continue
		}
		targets = append(targets, k)
	}
	run := e.verifyFunctions(targets, func(o *Obligation) bool { return hasProp(o.Props, prop) })
	// lemmas of this property
	e.proveLemmas(run, prop)

	known := loadKnownFindings(filepath.Join(verif, "known_findings.txt"))
	claims := loadClaims(filepath.Join(verif, "claims", prop+".txt"))

	replayDir := filepath.Join(verif, "evidence", "replays", prop)
	os.RemoveAll(replayDir)

	// group by name
	type group struct {
		name string
		obs  []*Obligation
	}
	groups := map[string]*group{}
	var names []string
	for _, o := range run.allObs() {
		if !hasProp(o.Props, prop) {
			continue
		}
		g := groups[o.Name]
		if g == nil {
			g = &group{name: o.Name}
			groups[o.Name] = g
			names = append(names, o.Name)
		}
		g.obs = append(g.obs, o)
	}
	sort.Strings(names)

	total, discharged := 0, 0
	violations := 0
	var lines []string
	var samples []any
	knownMatched := []string{}
	seenBase := map[string]bool{}
	for _, n := range names {
		g := groups[n]
		seenBase[baseName(n)] = true
		seenBase[n] = true
		var bad []*Obligation
		for _, o := range g.obs {
			total++
			if o.ok() {
				discharged++
			} else {
				bad = append(bad, o)
			}
		}
		if len(samples) < 6 && len(g.obs) > 0 {
			o := g.obs[0]
			samples = append(samples, map[string]any{
				"obligation": o.Name, "kind": o.Kind, "pos": fmt.Sprintf("%s:%d", relRepo(o.Pos.Filename), o.Pos.Line),
				"instances": len(g.obs), "status": statusOf(o), "solver": o.Result.Solver, "smt_bytes": len(o.Query),
				"goal": truncate(goalString(o), 400),
			})
		}
		if len(bad) == 0 {
			continue
		}
		// known finding?
		matched := false
		for _, kf := range known {
			if !kf.Fixed && kf.Property == prop && (kf.Obligation == n || kf.Obligation == baseName(n)) {
				matched = true
				lines = append(lines, fmt.Sprintf("KNOWN-FINDING: property=%s %s (%s)", prop, n, kf.What))
				knownMatched = append(knownMatched, n)
				// a known finding is not counted as an undischarged proof obligation of the claim
				total -= len(g.obs)
				discharged -= len(g.obs) - len(bad)
				break
			}
		}
		if matched {
			continue
		}
		violations++
		path, found := e.writeReplay(replayDir, prop, bad[0], bad)
		line := fmt.Sprintf("VIOLATION property=%s replay=%s", prop, path)
		if !found {
			line += " no-failing-input-found"
		}
		lines = append(lines, line)
		lines = append(lines, fmt.Sprintf("  obligation %s failed (%s) at %s:%d", n, statusOf(bad[0]), relRepo(bad[0].Pos.Filename), bad[0].Pos.Line))
	}
	// functions that could not be verified at all
	var unverified []string
	for _, f := range run.Funcs {
		for _, u := range f.Unsup {
			unverified = append(unverified, f.Key+": "+u)
			violations++
			path := e.writeNote(replayDir, prop, "UNVERIFIED "+f.Key, u)
			lines = append(lines, fmt.Sprintf("VIOLATION property=%s replay=%s no-failing-input-found", prop, path))
			lines = append(lines, fmt.Sprintf("  UNVERIFIED %s: %s", f.Key, u))
		}
	}
	for _, b := range run.Broken {
		violations++
		path := e.writeNote(replayDir, prop, "BROKEN", b)
		lines = append(lines, fmt.Sprintf("VIOLATION property=%s replay=%s no-failing-input-found", prop, path))
		lines = append(lines, "  BROKEN: "+b)
	}
	// claimed clauses must still have instances
	missing := 0
	for _, c := range claims {
		if !seenBase[c] {
			missing++
			violations++
			path := e.writeNote(replayDir, prop, "MISSING "+c, "claimed obligation has no instance on the current tree (function or clause vanished)")
			lines = append(lines, fmt.Sprintf("VIOLATION property=%s replay=%s no-failing-input-found", prop, path))
			lines = append(lines, "  claimed obligation without instance: "+c)
		}
	}

	wall := time.Since(t0).Seconds()
	// evidence
	var fnames []string
	for _, f := range run.Funcs {
		fnames = append(fnames, fmt.Sprintf("%s (paths=%d)", f.Key, f.Paths))
	}
	trusted, assumptions := e.trustedBase(run)
	cov := map[string]any{
		"obligations":               total,
		"discharged":                discharged,
		"checker_cmd":               fmt.Sprintf("govc check -property %s -tier %s (VCs generated from go/ssa of %s; solvers z3 4.8.12, z3-new 5.1.0, cvc5 1.0.3)", prop, tier, e.repo),
		"trusted_base":              trusted,
		"functions_under_contract":  fnames,
		"distinct_obligation_names": len(names),
		"claimed_obligation_names":  len(claims),
		"claimed_missing":           missing,
		"solver_wins":               run.Stats.Wins,
		"discharged_by_cache":       countCache(run),
		"solver_seconds":            run.Stats.Seconds,
		"samples":                   samples,
		"unverified":                unverified,
		"known_findings_matched":    knownMatched,
		"per_obligation_timeout_s":  e.opts.TimeoutS,
		"vacuity":                   "reach obligations: every return / loop-body end reached by some path must have a satisfiable path condition (unsat => violation)",
		"arithmetic":                "mathematical integers; every arithmetic result assumed within its Go type range (overflow not proved); int<->uint conversions exact (two's complement wrap)",
	}
	if total == 0 {
		// nothing to claim: keep the file schema-valid but make the emptiness visible
		cov["obligations"] = 0
		cov["discharged"] = 0
	}
	ev := evidence{PropertyID: prop, Tier: tier, Seed: seed, Level: "proof", Coverage: cov, Assumptions: assumptions, WallS: wall, Violations: violations}
	os.MkdirAll(filepath.Join(verif, "evidence"), 0o755)
	data, _ := json.MarshalIndent(ev, "", " ")
	os.WriteFile(filepath.Join(verif, "evidence", prop+".json"), append(data, '\n'), 0o644)

	for _, l := range lines {
		fmt.Println(l)
	}
	fmt.Printf("property %s tier %s: %d functions, %d obligation instances, %d discharged, %d violations, %.1fs\n", prop, tier, len(run.Funcs), total, discharged, violations, wall)
	if total == 0 && violations == 0 {
		fmt.Printf("VIOLATION property=%s replay=%s no-failing-input-found\n", prop, e.writeNote(replayDir, prop, "EMPTY", "no obligation was generated for this property"))
		return 1
	}
	if violations > 0 {
		return 1
	}
	return 0
}

func statusOf(o *Obligation) string {
	if o.Static {
		if o.StaticOK {
			return "trivial"
		}
		return "static-fail"
	}
	if o.Kind == "reach" {
		if o.Result.Status == "unsat" {
			return "unreachable"
		}
		return "reachable(" + o.Result.Status + ")"
	}
	switch o.Result.Status {
	case "unsat":
		return "discharged"
	case "sat":
		return "refuted(model)"
	}
	return "undecided(" + o.Result.Status + ")"
}

func goalString(o *Obligation) string {
	if o.Clause != nil {
		return o.Clause.Kind + " " + o.Clause.Src
	}
	if o.Goal != nil {
		return o.Goal.String()
	}
	return "path condition satisfiable"
}

func relRepo(p string) string {
	if i := strings.Index(p, "/pkg/"); i >= 0 {
		return p[i+1:]
	}
	return p
}

func loadClaims(path string) []string {
	data, err := os.ReadFile(path)
	if err != nil {
		return nil
	}
	var out []string
	for _, l := range strings.Split(string(data), "\n") {
		l = strings.TrimSpace(l)
		if l != "" && !strings.HasPrefix(l, "#") {
			out = append(out, l)
		}
	}
	return out
}

func (e *Engine) writeNote(dir, prop, title, body string) string {
	os.MkdirAll(dir, 0o755)
	p := filepath.Join(dir, sanitize(truncate(title, 120))+".txt")
	os.WriteFile(p, []byte(fmt.Sprintf("property: %s\n%s\n\n%s\n", prop, title, body)), 0o644)
	return p
}

// writeReplay writes the replay artefact for a failed obligation. Returns the
// path and whether a failing input was reproduced on the real code.
func (e *Engine) writeReplay(dir, prop string, o *Obligation, all []*Obligation) (string, bool) {
	os.MkdirAll(dir, 0o755)
	base := filepath.Join(dir, sanitize(truncate(o.Name, 150)))
	var b strings.Builder
	fmt.Fprintf(&b, "property: %s\nobligation: %s\nkind: %s\nposition: %s:%d\nstatus: %s (%s, %.2fs)\ninstances failing: %d\n", prop, o.Name, o.Kind, relRepo(o.Pos.Filename), o.Pos.Line, statusOf(o), o.Result.Solver, o.Result.Seconds, len(all))
	if o.Clause != nil {
		fmt.Fprintf(&b, "clause: %s %s   (%s:%d)\n", o.Clause.Kind, o.Clause.Src, o.Clause.File, o.Clause.Line)
	}
	fmt.Fprintf(&b, "path (basic blocks): %v\n", o.Path)
	reproduced := false
	{
		rp, ok, log := e.tryReplay(base, prop, o)
		fmt.Fprintf(&b, "\n--- replay ---\n%s\n", log)
		if ok {
			reproduced = true
			fmt.Fprintf(&b, "replay test: %s\n", rp)
		}
	}
	fmt.Fprintf(&b, "\n--- solver output ---\n%s\n", truncate(o.Result.Raw, 20000))
	if o.Goal != nil {
		fmt.Fprintf(&b, "\n--- goal ---\n%s\n", truncate(o.Goal.String(), 20000))
	}
	os.WriteFile(base+".txt", []byte(b.String()), 0o644)
	os.WriteFile(base+".smt2", []byte(o.Query), 0o644)
	return base + ".txt", reproduced
}

// trustedBase lists extern contracts used and standing assumptions.
func (e *Engine) trustedBase(run *Run) ([]string, []string) {
	var trusted []string
	for _, k := range e.ct.sortedFuncKeys() {
		fc := e.ct.Funcs[k]
		if fc.NoBody {
			trusted = append(trusted, "assumed contract: "+k+" ("+filepath.Base(fc.File)+")")
		}
	}
	for _, k := range e.ct.sortedFuncKeys() {
		fc := e.ct.Funcs[k]
		for _, cl := range fc.Ensures {
			if strings.HasPrefix(cl.Label, "def-") {
				trusted = append(trusted, "definitional clause (not proved) of "+k+": "+truncate(cl.Src, 200))
			}
		}
		for _, cl := range fc.Assumes {
			trusted = append(trusted, "assume (entry) in "+k+": "+truncate(cl.Src, 200))
		}
		for _, cl := range fc.AssumesAcq {
			trusted = append(trusted, "assume (at lock acquisition) in "+k+": "+truncate(cl.Src, 200))
		}
		for _, ab := range fc.Ats {
			for _, cl := range ab.Assumes {
				trusted = append(trusted, fmt.Sprintf("assume (result of call %s #%d) in %s: %s", ab.Callee, ab.Ordinal, k, truncate(cl.Src, 200)))
			}
			for _, cl := range ab.AssumesHere {
				trusted = append(trusted, fmt.Sprintf("assume (before call %s #%d) in %s: %s", ab.Callee, ab.Ordinal, k, truncate(cl.Src, 200)))
			}
		}
		if fc.StartLoop > 0 {
			trusted = append(trusted, fmt.Sprintf("%s verified from loop #%d on only (prefix skipped; the loop invariant is assumed at its first entry)", k, fc.StartLoop))
		}
	}
	for k, tc := range e.ct.Types {
		for _, cl := range tc.Received {
			trusted = append(trusted, "assume (every "+k+" received from a channel): "+truncate(cl.Src, 200))
		}
	}
	for k := range e.ct.Funcs {
		if strings.Contains(k, "$") {
			if fn := e.lookupFunc(k); fn != nil && fn.Synthetic == "range-over-func yield" {
				trusted = append(trusted, "range-over-func body "+k+": the iterator calls the loop body only while the loop is active (go/ssa state variable is 0 on entry); the loop's own induction is not part of the obligations")
			}
		}
	}
	trusted = append(trusted, e.ifaceCoverage()...)
	for _, re := range e.ct.InlineRe {
		trusted = append(trusted, "inlined by pattern (body is the contract): "+re.String())
	}
	for _, l := range e.ct.Lemmas {
		if l.Axiom {
			trusted = append(trusted, "axiom: "+l.Name+": "+truncate(l.Clause.Src, 160))
		}
	}
	trusted = append(trusted, "go/packages + go/ssa (x/tools v0.50.0) translation of the source", "SMT solvers z3 4.8.12 / z3-new 5.1.0 / cvc5 1.0.3", "govc VC generator (/verif/govc)")
	assumptions := []string{
		"scheduling, goroutine progress, channel progress and termination are not modelled (safety only)",
		"integer arithmetic is mathematical; results are assumed to fit their Go type (no overflow)",
		"callees without a contract: module functions and dynamic calls havoc all memory; library functions havoc only blocks passed directly",
		"memory is well-typed; every pointer read from memory refers to an allocated block",
		"recover() is modelled as returning nil (panics are proved absent instead)",
		"spawned goroutines (go statements) are not executed; the spawner's later reads of shared variables are not checked",
	}
	return trusted, assumptions
}

// proveLemmas discharges lemma clauses tagged with the property.
func (e *Engine) proveLemmas(run *Run, prop string) {
	var obs []*Obligation
	for _, l := range e.ct.Lemmas {
		if l.Axiom || !hasProp(l.Clause.Props, prop) {
			continue
		}
		v := &Verifier{e: e, counters: map[string]int{}, key: "lemma"}
		st := &State{e: e, mem: map[Kind]*Term{}, maps: map[string]*Term{}, clos: map[string]*closureVal{}, held: map[string]*heldLock{}, nonnil: map[string]bool{}}
		st.next = e.sy.Fresh("next0", SInt)
		var goal *Term
		var failMsg string
		func() {
			defer func() {
				if r := recover(); r != nil {
					if u, ok := r.(unsupported); ok {
						failMsg = u.msg
						return
					}
					panic(r)
				}
			}()
			env := &Env{v: v, vars: map[string]Value{}, pkgPath: l.PkgPath}
			goal = v.evalBoolIn(st, env, l.Clause)
		}()
		if failMsg != "" {
			run.Broken = append(run.Broken, "lemma "+l.Name+": "+failMsg)
			continue
		}
		o := &Obligation{Name: "lemma#" + l.Name, Kind: "lemma", Func: "lemma", PC: st.pc, Goal: goal, Clause: l.Clause, Props: l.Clause.Props}
		o.Pos.Filename = l.Clause.File
		o.Pos.Line = l.Clause.Line
		obs = append(obs, o)
	}
	e.solveAll(obs, run.Stats)
	run.Lemmas = append(run.Lemmas, obs...)
}

// proveLemmasNames adds lemma obligations without solving (for the claims listing).
func (e *Engine) proveLemmasNames(run *Run, prop string) {
	for _, l := range e.ct.Lemmas {
		if l.Axiom || !hasProp(l.Clause.Props, prop) {
			continue
		}
		run.Lemmas = append(run.Lemmas, &Obligation{Name: "lemma#" + l.Name, Kind: "lemma", Clause: l.Clause, Props: l.Clause.Props, Static: true, StaticOK: true})
	}
}

func countCache(run *Run) int {
	n := 0
	for _, o := range run.allObs() {
		if o.Result.Solver == "cache" {
			n++
		}
	}
	return n
}

// ifaceCoverage: for every interface contract with an ensures clause, which repo implementations
// carry a contract of their own (and are therefore checked) and which are merely assumed to comply.
func (e *Engine) ifaceCoverage() []string {
	var out []string
	for _, k := range e.ct.sortedFuncKeys() {
		fc := e.ct.Funcs[k]
		if !fc.IsIface || len(fc.Ensures) == 0 {
			continue
		}
		name := strings.TrimPrefix(k, "iface:")
		i := strings.LastIndex(name, ".")
		if i < 0 {
			continue
		}
		ifaceName, method := name[:i], name[i+1:]
		t, err := e.resolveType(ifaceName, "")
		if err != nil {
			continue
		}
		it, ok := t.Underlying().(*types.Interface)
		if !ok {
			continue
		}
		var with, without []string
		for path, p := range e.pkgByPath {
			if !strings.HasPrefix(path, modulePath) || p.Types == nil {
				continue
			}
			sc := p.Types.Scope()
			for _, n := range sc.Names() {
				tn, ok := sc.Lookup(n).(*types.TypeName)
				if !ok {
					continue
				}
				nt, ok := tn.Type().(*types.Named)
				if !ok || nt.TypeParams().Len() > 0 {
					continue
				}
				if _, isIface := nt.Underlying().(*types.Interface); isIface {
					continue
				}
				var recv string
				switch {
				case types.Implements(nt, it):
					recv = "(" + n + ")"
				case types.Implements(types.NewPointer(nt), it):
					recv = "(*" + n + ")"
				default:
					continue
				}
				key := relPkg(path) + "." + recv + "." + method
				alt := relPkg(path) + ".(" + n + ")." + method
				if e.ct.Funcs[key] != nil || e.ct.Funcs[alt] != nil {
					with = append(with, relPkg(path)+"."+n)
				} else {
					without = append(without, relPkg(path)+"."+n)
				}
			}
		}
		sort.Strings(with)
		sort.Strings(without)
		if len(without) > 12 {
			without = append(without[:12], fmt.Sprintf("… %d more", len(without)-12))
		}
		out = append(out, fmt.Sprintf("interface contract %s: implementations under contract %v; assumed for %v and every implementation outside the repository", name, with, without))
	}
	return out
}
