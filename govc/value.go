package main

// Type layouts and symbolic values.
//
// Every Go value is a flat list of SMT leaves. Memory is block/offset addressed:
// a pointer is (blk, off); one 2-D array per leaf kind maps blk -> off -> leaf.

import (
	"fmt"
	"go/types"
	"math/big"

	"golang.org/x/tools/go/ssa"
)

type Kind byte

const (
	KI Kind = iota // Int
	KB             // Bool
	KS             // Str
	KR             // Real (floats; opaque)
	KY             // byte-sized integers (own memory: byte buffers never alias other data)
)

var allKinds = []Kind{KI, KB, KS, KR, KY}

func (k Kind) Sort() Sort {
	switch k {
	case KI:
		return SInt
	case KB:
		return SBool
	case KS:
		return SStr
	case KY:
		return SInt
	}
	return SReal
}

func (k Kind) String() string { return [...]string{"I", "B", "S", "R", "Y"}[k] }

type Role byte

const (
	RPlain Role = iota
	RBlk        // block id of a pointer / slice / iface payload
	ROff        // offset
	RLen
	RCap
	RTid  // dynamic type id of an interface
	RRef  // map / chan / func reference
	ROpaq // opaque type parameter value
)

type Slot struct {
	K     Kind
	Role  Role
	Basic *types.Basic // for RPlain ints: range
}

type Layouts struct {
	cache map[types.Type][]Slot
	byStr map[string][]Slot
	// subst: type arguments of the inlined generic body being executed (set per instruction from the
	// frame); while it is set nothing is cached, since the layout of T depends on it
	subst map[*types.TypeParam]types.Type
}

func NewLayouts() *Layouts {
	return &Layouts{cache: map[types.Type][]Slot{}, byStr: map[string][]Slot{}}
}

func (l *Layouts) Of(t types.Type) []Slot {
	if len(l.subst) > 0 {
		return l.compute(t)
	}
	if s, ok := l.cache[t]; ok {
		return s
	}
	s := l.compute(t)
	l.cache[t] = s
	return s
}

func (l *Layouts) Size(t types.Type) int { return len(l.Of(t)) }

func (l *Layouts) compute(t types.Type) []Slot {
	switch u := t.(type) {
	case *types.Named, *types.Alias:
		return l.Of(t.Underlying())
	case *types.Basic:
		switch {
		case u.Info()&types.IsBoolean != 0:
			return []Slot{{K: KB}}
		case u.Kind() == types.Uint8 || u.Kind() == types.Int8:
			return []Slot{{K: KY, Basic: u}}
		case u.Info()&types.IsInteger != 0:
			return []Slot{{K: KI, Basic: u}}
		case u.Info()&types.IsString != 0:
			return []Slot{{K: KS}}
		case u.Info()&types.IsFloat != 0:
			return []Slot{{K: KR}}
		case u.Info()&types.IsComplex != 0:
			return []Slot{{K: KR}, {K: KR}}
		case u.Kind() == types.UnsafePointer:
			return []Slot{{K: KI, Role: RBlk}, {K: KI, Role: ROff}}
		case u.Kind() == types.UntypedNil:
			return []Slot{{K: KI, Role: RBlk}, {K: KI, Role: ROff}}
		case u.Kind() == types.Invalid:
			return []Slot{{K: KI, Role: ROpaq}}
		}
		panic(fmt.Sprintf("layout: basic %v", u))
	case *types.Pointer:
		return []Slot{{K: KI, Role: RBlk}, {K: KI, Role: ROff}}
	case *types.Slice:
		return []Slot{{K: KI, Role: RBlk}, {K: KI, Role: ROff}, {K: KI, Role: RLen}, {K: KI, Role: RCap}}
	case *types.Map, *types.Chan, *types.Signature:
		return []Slot{{K: KI, Role: RRef}}
	case *types.Interface:
		return []Slot{{K: KI, Role: RTid}, {K: KI, Role: RBlk}, {K: KI, Role: ROff}}
	case *types.TypeParam:
		if a, ok := l.subst[u]; ok && a != types.Type(u) {
			saved := l.subst
			l.subst = nil // the argument is a type of the caller's world
			out := l.Of(a)
			l.subst = saved
			return out
		}
		// a type parameter whose constraint has methods is laid out like an interface value (dynamic
		// type id + payload), so that method calls on it go through the interface contracts
		if ci, ok := u.Constraint().Underlying().(*types.Interface); ok && ci.NumMethods() > 0 {
			return []Slot{{K: KI, Role: RTid}, {K: KI, Role: RBlk}, {K: KI, Role: ROff}}
		}
		return []Slot{{K: KI, Role: ROpaq}}
	case *types.Struct:
		var out []Slot
		for i := 0; i < u.NumFields(); i++ {
			out = append(out, l.Of(u.Field(i).Type())...)
		}
		return out
	case *types.Array:
		el := l.Of(u.Elem())
		var out []Slot
		if u.Len() > 4096 {
			panic("array too large for layout")
		}
		for i := int64(0); i < u.Len(); i++ {
			out = append(out, el...)
		}
		return out
	case *types.Tuple:
		var out []Slot
		for i := 0; i < u.Len(); i++ {
			out = append(out, l.Of(u.At(i).Type())...)
		}
		return out
	}
	// opaque ssa-internal types ($ssa.deferStack etc.)
	return []Slot{{K: KI, Role: ROpaq}}
}

// FieldOff returns the slot offset of field i in struct type st.
func (l *Layouts) FieldOff(st *types.Struct, i int) int {
	off := 0
	for j := 0; j < i; j++ {
		off += l.Size(st.Field(j).Type())
	}
	return off
}

// ---------------------------------------------------------------------------

type cellRef struct {
	alloc *ssa.Alloc
	off   int
	typ   types.Type // type of the pointee at this offset
}

type closureVal struct {
	fn       *ssa.Function
	bindings []Value
}

type Value struct {
	T    types.Type
	L    []*Term
	cell *cellRef    // pointer into a frame-local cell (L is nil)
	clo  *closureVal // statically known function / closure
	it   *iterState  // map iterator
}

func (v Value) IsCellPtr() bool { return v.cell != nil }

func (v Value) sub(off, n int, t types.Type) Value {
	return Value{T: t, L: v.L[off : off+n]}
}

func (v Value) String() string {
	if v.cell != nil {
		return fmt.Sprintf("&cell(%s)+%d", v.cell.alloc.Name(), v.cell.off)
	}
	s := "["
	for i, l := range v.L {
		if i > 0 {
			s += " "
		}
		s += l.String()
	}
	return s + "]"
}

var bigOne = big.NewInt(1)

func intRange(b *types.Basic) (lo, hi *big.Int, ok bool) {
	bits := 0
	signed := true
	switch b.Kind() {
	case types.Int8:
		bits = 8
	case types.Int16:
		bits = 16
	case types.Int32, types.UntypedRune:
		bits = 32
	case types.Int64, types.Int, types.UntypedInt:
		bits = 64
	case types.Uint8:
		bits, signed = 8, false
	case types.Uint16:
		bits, signed = 16, false
	case types.Uint32:
		bits, signed = 32, false
	case types.Uint64, types.Uint, types.Uintptr:
		bits, signed = 64, false
	default:
		return nil, nil, false
	}
	if signed {
		hi = new(big.Int).Lsh(bigOne, uint(bits-1))
		lo = new(big.Int).Neg(hi)
		hi = new(big.Int).Sub(hi, bigOne)
	} else {
		lo = big.NewInt(0)
		hi = new(big.Int).Sub(new(big.Int).Lsh(bigOne, uint(bits)), bigOne)
	}
	return lo, hi, true
}

func isPointerShaped(t types.Type) bool {
	switch t.Underlying().(type) {
	case *types.Pointer:
		return true
	}
	if b, ok := t.Underlying().(*types.Basic); ok && b.Kind() == types.UnsafePointer {
		return true
	}
	return false
}

func derefType(t types.Type) types.Type {
	if p, ok := t.Underlying().(*types.Pointer); ok {
		return p.Elem()
	}
	panic(fmt.Sprintf("derefType of non-pointer %v", t))
}
