package main

// Proof cache: verdicts "unsat" keyed by the hash of the normalised query text. A hit means the
// identical verification condition was discharged by a solver before; the thorough tier and
// -nocache ignore it. Only unsat is cached (a refutation is always re-derived).

import (
	"crypto/sha256"
	"encoding/hex"
	"os"
	"path/filepath"
	"regexp"
	"sort"
	"strings"
	"sync"
)

type proofCache struct {
	path  string
	mu    sync.Mutex
	set   map[string]bool
	dirty bool
	hits  int
}

func loadProofCache(path string) *proofCache {
	c := &proofCache{path: path, set: map[string]bool{}}
	data, err := os.ReadFile(path)
	if err == nil {
		for _, l := range strings.Split(string(data), "\n") {
			l = strings.TrimSpace(l)
			if l != "" {
				c.set[l] = true
			}
		}
	}
	return c
}

func (c *proofCache) has(k string) bool {
	if c == nil {
		return false
	}
	c.mu.Lock()
	defer c.mu.Unlock()
	if c.set[k] {
		c.hits++
		return true
	}
	return false
}

func (c *proofCache) add(k string) {
	if c == nil {
		return
	}
	c.mu.Lock()
	defer c.mu.Unlock()
	if !c.set[k] {
		c.set[k] = true
		c.dirty = true
	}
}

func (c *proofCache) save() {
	if c == nil {
		return
	}
	c.mu.Lock()
	defer c.mu.Unlock()
	if !c.dirty {
		return
	}
	// merge with what other concurrent runs may have written
	if data, err := os.ReadFile(c.path); err == nil {
		for _, l := range strings.Split(string(data), "\n") {
			if l = strings.TrimSpace(l); l != "" {
				c.set[l] = true
			}
		}
	}
	var ks []string
	for k := range c.set {
		ks = append(ks, k)
	}
	sort.Strings(ks)
	os.MkdirAll(filepath.Dir(c.path), 0o755)
	tmp := c.path + ".tmp"
	if err := os.WriteFile(tmp, []byte(strings.Join(ks, "\n")+"\n"), 0o644); err == nil {
		os.Rename(tmp, c.path)
	}
	c.dirty = false
}

var counterRe = regexp.MustCompile(`[!@](q?)([0-9]+)`)

// proofKey normalises generated counters (x!123, M@4, p!q17_0) by order of first appearance, so
// that unrelated edits elsewhere in a function do not invalidate the entry, then hashes the text.
func proofKey(q string) string {
	lines := strings.Split(q, "\n")
	var decls, rest []string
	for _, l := range lines {
		if strings.HasPrefix(l, "(declare-") {
			decls = append(decls, l)
		} else {
			rest = append(rest, l)
		}
	}
	// number the counters by first appearance in the assertions (declaration order depends on them)
	ids := map[string]int{}
	ren := func(s string) string {
		return counterRe.ReplaceAllStringFunc(s, func(m string) string {
			if _, ok := ids[m]; !ok {
				ids[m] = len(ids)
			}
			return m[:1] + "#" + itoa(ids[m])
		})
	}
	body := ren(strings.Join(rest, "\n"))
	for i := range decls {
		decls[i] = ren(decls[i])
	}
	sort.Strings(decls)
	h := sha256.Sum256([]byte(strings.Join(decls, "\n") + "\n" + body))
	return hex.EncodeToString(h[:16])
}

func itoa(n int) string {
	if n == 0 {
		return "0"
	}
	var b []byte
	for n > 0 {
		b = append([]byte{byte('0' + n%10)}, b...)
		n /= 10
	}
	return string(b)
}
