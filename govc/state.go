package main

// Path state: frames, block memory, maps, path condition.

import (
	"fmt"
	"go/types"
	"os"
	"os/exec"
	"path/filepath"
	"runtime"
	"runtime/debug"
	"sort"
	"strings"

	"golang.org/x/tools/go/ssa"
)

type deferred struct {
	call *ssa.CallCommon
	fn   Value
	args []Value
	pos  ssa.Instruction
}

type Frame struct {
	fn     *ssa.Function
	regs   map[ssa.Value]Value
	cells  map[*ssa.Alloc]Value
	defers []deferred
	info   *FuncInfo
	// entry values of parameters (for old(p))
	entryParams map[string]Value
	depth       int
	ret         func(*State, Value)             // continuation of an inlined frame
	subst       map[*types.TypeParam]types.Type // inlined generic body: its type parameters -> the type arguments of the call
}

func (f *Frame) clone() *Frame {
	nf := &Frame{fn: f.fn, info: f.info, entryParams: f.entryParams, depth: f.depth, ret: f.ret, subst: f.subst}
	nf.regs = make(map[ssa.Value]Value, len(f.regs))
	for k, v := range f.regs {
		nf.regs[k] = v
	}
	nf.cells = make(map[*ssa.Alloc]Value, len(f.cells))
	for k, v := range f.cells {
		nf.cells[k] = v
	}
	nf.defers = append([]deferred(nil), f.defers...)
	return nf
}

type iterState struct {
	mapVal  Value
	mapType *types.Map
	visited *Term // Array K Bool
	isStr   bool
}

type State struct {
	e               *Engine
	frames          []*Frame
	mem             map[Kind]*Term
	maps            map[string]*Term // map-model arrays, keyed by array name
	next            *Term            // bump allocator: every live block id is < next
	pc              []*Term
	clos            map[string]*closureVal
	held            map[string]*heldLock
	ghostOK         bool
	entry           *State                          // snapshot at function entry (for old())
	acq             *State                          // snapshot right after the most recent lock acquisition (for acq())
	lastRel         map[string]*State               // per lock: snapshot at its last release
	watch           map[string]func(*State) []*Term // per held lock: blocks its owner's invariants read (for frame lemmas)
	loopBase        *State                          // state at the head of the enclosing loop that acquires locks (baseline for rely)
	loopBasePending bool
	pendingHavoc    []*Term // blocks whose contents a loop may have rewritten (applied after the invariant is assumed)
	path            []int   // block indices visited in the top frame (for naming / debugging)
	// known facts to dedupe no-panic obligations: term strings known non-nil
	nonnil    map[string]bool
	pcSet     map[string]bool
	private   map[string]*Term // blocks allocated here and not yet escaped
	glocals   map[string]Value // ghost locals of the function under verification (values, not memory)
	frozen    map[string]*Term // captured variables that no code assigns after their initialisation: they keep their contents across every havoc (never removed)
	local     map[string]bool  // every block allocated by this invocation
	clean     map[string]bool  // lock key -> nothing the owner's invariant can read was written since acquisition
	qtag      map[string]string
	loadNames map[string]*Term
	epoch     int // generation of lazily named memory / map arrays (bumped by havocAll)
}

func (s *State) clone() *State {
	ns := &State{e: s.e, next: s.next, entry: s.entry, acq: s.acq, ghostOK: s.ghostOK, epoch: s.epoch, loopBase: s.loopBase}
	ns.frames = make([]*Frame, len(s.frames))
	for i, f := range s.frames {
		ns.frames[i] = f.clone()
	}
	ns.mem = map[Kind]*Term{}
	for k, v := range s.mem {
		ns.mem[k] = v
	}
	ns.maps = make(map[string]*Term, len(s.maps))
	for k, v := range s.maps {
		ns.maps[k] = v
	}
	ns.pc = append(make([]*Term, 0, len(s.pc)+8), s.pc...)
	ns.local = make(map[string]bool, len(s.local))
	for k := range s.local {
		ns.local[k] = true
	}
	ns.clean = make(map[string]bool, len(s.clean))
	for k, v := range s.clean {
		ns.clean[k] = v
	}
	ns.private = make(map[string]*Term, len(s.private))
	for k, v := range s.private {
		ns.private[k] = v
	}
	ns.frozen = s.frozen // immutable after entry
	if s.glocals != nil {
		ns.glocals = make(map[string]Value, len(s.glocals))
		for k, v := range s.glocals {
			ns.glocals[k] = v
		}
	}
	ns.qtag = make(map[string]string, len(s.qtag))
	for k, v := range s.qtag {
		ns.qtag[k] = v
	}
	ns.loadNames = make(map[string]*Term, len(s.loadNames))
	for k, v := range s.loadNames {
		ns.loadNames[k] = v
	}
	ns.pcSet = make(map[string]bool, len(s.pcSet))
	for k := range s.pcSet {
		ns.pcSet[k] = true
	}
	ns.clos = make(map[string]*closureVal, len(s.clos))
	for k, v := range s.clos {
		ns.clos[k] = v
	}
	ns.held = make(map[string]*heldLock, len(s.held))
	for k, v := range s.held {
		ns.held[k] = v
	}
	ns.nonnil = make(map[string]bool, len(s.nonnil))
	for k, v := range s.nonnil {
		ns.nonnil[k] = v
	}
	ns.path = append([]int(nil), s.path...)
	if s.watch != nil {
		ns.watch = make(map[string]func(*State) []*Term, len(s.watch))
		for k, v := range s.watch {
			ns.watch[k] = v
		}
	}
	if s.lastRel != nil {
		ns.lastRel = make(map[string]*State, len(s.lastRel))
		for k, v := range s.lastRel {
			ns.lastRel[k] = v
		}
	}
	return ns
}

// snapshot for old(): memory and maps only (frames not needed except entryParams).
func (s *State) snapshot() *State {
	ns := &State{e: s.e, next: s.next, epoch: s.epoch}
	if s.glocals != nil {
		ns.glocals = make(map[string]Value, len(s.glocals))
		for k, v := range s.glocals {
			ns.glocals[k] = v
		}
	}
	ns.mem = map[Kind]*Term{}
	for k, v := range s.mem {
		ns.mem[k] = v
	}
	ns.maps = make(map[string]*Term, len(s.maps))
	for k, v := range s.maps {
		ns.maps[k] = v
	}
	ns.held = make(map[string]*heldLock, len(s.held))
	for k, v := range s.held {
		ns.held[k] = v
	}
	ns.frames = s.frames
	return ns
}

func (s *State) top() *Frame { return s.frames[len(s.frames)-1] }

func (s *State) assume(t *Term) { s.assumeTagged(t, "") }

// assumeTagged records where a (quantified) assumption came from, so that
// proofs can hide the ones they do not need.
func (s *State) assumeTagged(t *Term, tag string) {
	if t == nil || t.IsTrue() {
		return
	}
	if t.op == "and" {
		for _, a := range t.args {
			s.assumeTagged(a, tag)
		}
		return
	}
	if tag != "" && hasQuantifier(t) {
		if s.qtag == nil {
			s.qtag = map[string]string{}
		}
		s.qtag[t.String()] = tag
	}
	key := t.String()
	if s.pcSet == nil {
		s.pcSet = map[string]bool{}
	}
	if s.pcSet[key] {
		return
	}
	s.pcSet[key] = true
	s.pc = append(s.pc, t)
}

// define introduces a named constant equal to t (keeps terms small).
func (s *State) define(hint string, t *Term) *Term {
	if t.op == "const" || t.op == "int" || t.op == "bool" {
		return t
	}
	c := s.e.sy.Fresh(hint, t.sort)
	s.pc = append(s.pc, mk("=", SBool, c, t))
	return c
}

func memSort(k Kind) Sort { return ArraySort(SInt, ArraySort(SInt, k.Sort())) }

func (s *State) memOf(k Kind) *Term {
	if m, ok := s.mem[k]; ok {
		return m
	}
	m := s.e.sy.Named(fmt.Sprintf("M%s@%d", k.String(), s.epoch), memSort(k))
	s.mem[k] = m
	return m
}

// ---------------------------------------------------------------------------
// zero / fresh values

func (e *Engine) zeroLeaf(sl Slot) *Term {
	switch sl.K {
	case KI, KY:
		return IntLit(0)
	case KB:
		return TFalse
	case KS:
		return e.strLit("")
	}
	return e.sy.Named("real_zero", SReal)
}

func (e *Engine) zeroValue(t types.Type) Value {
	lay := e.lay.Of(t)
	v := Value{T: t, L: make([]*Term, len(lay))}
	for i, sl := range lay {
		v.L[i] = e.zeroLeaf(sl)
	}
	return v
}

// freshValue creates fresh symbolic leaves and assumes well-formedness (ranges, validity).
func (s *State) freshValue(hint string, t types.Type) Value {
	lay := s.e.lay.Of(t)
	v := Value{T: t, L: make([]*Term, len(lay))}
	for i, sl := range lay {
		name := hint
		if len(lay) > 1 {
			name = fmt.Sprintf("%s.%d", hint, i)
		}
		v.L[i] = s.e.sy.Fresh(name, sl.K.Sort())
	}
	s.assumeWF(v)
	return v
}

// assumeWF adds well-formedness assumptions about leaves that came from the
// environment (inputs, memory, call results).
func (s *State) assumeWF(v Value) {
	if v.cell != nil {
		return
	}
	s.assumeBlockTypes(v.T, v.L)
	lay := s.e.lay.Of(v.T)
	for i, sl := range lay {
		l := v.L[i]
		if l.op == "int" || l.op == "bool" {
			continue
		}
		switch sl.Role {
		case RPlain:
			if (sl.K == KI || sl.K == KY) && sl.Basic != nil {
				if lo, hi, ok := intRange(sl.Basic); ok {
					s.assume(Le(BigLit(lo), l))
					s.assume(Le(l, BigLit(hi)))
				}
			}
		case RBlk:
			s.assume(Lt(l, s.next))
			// pointers may reach heap blocks and globals, never function ids or ghost state
			s.assume(Gt(l, IntLit(-2000000000)))
			if i+3 < len(lay) && lay[i+2].Role == RLen {
				// backing arrays of slices are heap blocks (globals and ghost state have negative ids)
				s.assume(Ge(l, IntLit(0)))
			}
		case ROff:
			s.assume(Ge(l, IntLit(0)))
			// a nil pointer has offset 0
			if i > 0 && lay[i-1].Role == RBlk {
				s.assume(Implies(Eq(v.L[i-1], IntLit(0)), Eq(l, IntLit(0))))
			}
		case RLen:
			s.assume(Ge(l, IntLit(0)))
		case RCap:
			s.assume(Ge(l, v.L[i-1]))
			// nil slice has zero len/cap
			s.assume(Implies(Eq(v.L[i-3], IntLit(0)), Eq(l, IntLit(0))))
		case RTid:
			s.assume(Ge(l, IntLit(0)))
			// nil interface has nil payload
			s.assume(Implies(Eq(l, IntLit(0)), And(Eq(v.L[i+1], IntLit(0)), Eq(v.L[i+2], IntLit(0)))))
		case RRef:
			s.assume(Lt(l, s.next))
		}
	}
}

// ---------------------------------------------------------------------------
// allocation

func (s *State) allocBlock() *Term {
	b := s.define("blk", s.next)
	if s.local == nil {
		s.local = map[string]bool{}
	}
	s.local[b.String()] = true
	s.assume(Gt(b, IntLit(0)))
	s.next = Add(b, IntLit(1))
	return b
}

func (s *State) ptrTo(blk *Term, off *Term, elem types.Type) Value {
	return Value{T: types.NewPointer(elem), L: []*Term{blk, off}}
}

// ---------------------------------------------------------------------------
// memory access

func (s *State) loadAt(blk, off *Term, t types.Type) Value {
	lay := s.e.lay.Of(t)
	v := Value{T: t, L: make([]*Term, len(lay))}
	inner := map[Kind]*Term{}
	for i, sl := range lay {
		in, ok := inner[sl.K]
		if !ok {
			in = Select(s.memOf(sl.K), blk)
			inner[sl.K] = in
		}
		v.L[i] = s.nameLoad(Select(in, Add(off, IntLit(int64(i)))))
	}
	s.assumeWF(v)
	return v
}

// nameLoad gives a loaded leaf a short name (keeps queries small).
func (s *State) nameLoad(t *Term) *Term {
	if t.op != "select" {
		return t
	}
	key := t.String()
	if s.loadNames == nil {
		s.loadNames = map[string]*Term{}
	}
	if c, ok := s.loadNames[key]; ok {
		return c
	}
	c := s.define("ld", t)
	s.loadNames[key] = c
	return c
}

// isLocal: the block was allocated by this invocation (syntactically known, or provably so).
func (s *State) isLocal(blk *Term) bool {
	if s.local[blk.String()] {
		return true
	}
	anyClean := false
	for _, c := range s.clean {
		if c {
			anyClean = true
		}
	}
	if !anyClean || s.entry == nil || s.e.opts.WorkDir == "" {
		return false
	}
	// is "blk was already allocated at entry" contradictory with the quantifier-free path condition?
	var pc []*Term
	for _, t := range s.pc {
		if !hasQuantifier(t) {
			pc = append(pc, t)
		}
	}
	pc = append(pc, Lt(blk, s.entry.next), Neq(blk, IntLit(0))) // block 0 is nil: nothing lives there
	s.e.localChecks++
	file := filepath.Join(s.e.opts.WorkDir, fmt.Sprintf("local_%d.smt2", s.e.localChecks))
	if err := os.WriteFile(file, []byte(s.e.sy.Query(s.e.stringAxiomsFor(pc), pc, nil, false)), 0o644); err != nil {
		return false
	}
	out, _ := exec.Command("z3", "-T:1", file).Output()
	if os.Getenv("GOVC_DIRTY") != "" {
		fmt.Fprintf(os.Stderr, "local-check %s -> %s (kept %s)\n", blk, strings.TrimSpace(string(out)), file)
		if data, err := os.ReadFile(file); err == nil {
			os.WriteFile(fmt.Sprintf("/tmp/probe/local_%d.smt2", s.e.localChecks), data, 0o644)
		}
	} else {
		os.Remove(file)
	}
	if strings.HasPrefix(string(out), "unsat") {
		if s.local == nil {
			s.local = map[string]bool{}
		}
		s.local[blk.String()] = true
		return true
	}
	return false
}

func (s *State) storeAt(blk, off *Term, v Value) {
	if !s.isLocal(blk) {
		s.dirty()
	}
	// frame lemmas: blocks the monitor invariants of held locks read are untouched by a store elsewhere
	var watched []*Term
	var before map[Kind]*Term
	if len(s.watch) > 0 && !s.local[blk.String()] {
		before = map[Kind]*Term{}
		for k, m := range s.mem {
			before[k] = m
		}
		var wk []string
		for k := range s.watch {
			wk = append(wk, k)
		}
		sort.Strings(wk)
		for _, k := range wk {
			watched = append(watched, s.watch[k](s)...)
		}
	}
	defer func() {
		for _, x := range watched {
			if x.String() == blk.String() {
				continue
			}
			for _, k := range allKinds {
				m0, ok := before[k]
				if !ok {
					continue
				}
				if m1 := s.mem[k]; m1 != m0 {
					s.assume(Implies(Neq(blk, x), mk("=", SBool, Select(m1, x), Select(m0, x))))
				}
			}
		}
	}()
	lay := s.e.lay.Of(v.T)
	if len(lay) != len(v.L) {
		panic(fmt.Sprintf("storeAt: layout/value mismatch for %v: %d vs %d", v.T, len(lay), len(v.L)))
	}
	inner := map[Kind]*Term{}
	for i, sl := range lay {
		in, ok := inner[sl.K]
		if !ok {
			in = Select(s.memOf(sl.K), blk)
		}
		if v.L[i].sort != sl.K.Sort() {
			panic(fmt.Sprintf("storeAt: leaf %d of %v has sort %s, want %s", i, v.T, v.L[i].sort, sl.K.Sort()))
		}
		inner[sl.K] = Store(in, Add(off, IntLit(int64(i))), v.L[i])
	}
	for _, k := range allKinds {
		if in, ok := inner[k]; ok {
			s.mem[k] = s.define("M"+k.String(), Store(s.memOf(k), blk, in))
		}
	}
}

// havocBlock replaces the whole contents of a block (all kinds).
func (s *State) havocBlock(blk *Term) {
	if !s.isLocal(blk) {
		s.dirty()
	}
	for _, k := range allKinds {
		if k == KR {
			continue
		}
		fresh := s.e.sy.Fresh("hv"+k.String(), ArraySort(SInt, k.Sort()))
		s.mem[k] = s.define("M"+k.String(), Store(s.memOf(k), blk, fresh))
	}
}

// havocRange replaces offsets [off, off+n) of a block (all kinds); everything else in the block is kept.
func (s *State) havocRange(blk, off, n *Term) {
	if !s.isLocal(blk) {
		s.dirty()
	}
	for _, k := range allKinds {
		if k == KR {
			continue
		}
		old := Select(s.memOf(k), blk)
		fresh := s.e.sy.Fresh("hr"+k.String(), ArraySort(SInt, k.Sort()))
		i := s.e.sy.Fresh("i", SInt)
		s.assumeTagged(Forall([]*Term{i}, Implies(Or(Lt(i, off), Ge(i, Add(off, n))), Eq(mk("select", k.Sort(), fresh, i), mk("select", k.Sort(), old, i)))), "range-frame")
		s.mem[k] = s.define("M"+k.String(), Store(s.memOf(k), blk, fresh))
	}
}

// havocAll replaces all of memory and all maps.
func (s *State) havocAll() {
	if os.Getenv("GOVC_DEBUG_HAVOC") != "" {
		buf := make([]byte, 2048)
		n := runtime.Stack(buf, false)
		fmt.Fprintf(os.Stderr, "havocAll:\n%s\n", buf[:n])
	}
	s.dirty()
	// blocks allocated by this invocation whose address never left it keep their contents
	type keep struct {
		blk  *Term
		vals map[Kind]*Term
	}
	var keeps []keep
	var names []string
	for n := range s.private {
		names = append(names, n)
	}
	sort.Strings(names)
	var fnames []string
	for n := range s.frozen {
		if _, dup := s.private[n]; !dup {
			fnames = append(fnames, n)
		}
	}
	sort.Strings(fnames)
	names = append(names, fnames...)
	for _, n := range names {
		b := s.private[n]
		if b == nil {
			b = s.frozen[n]
		}
		k := keep{blk: b, vals: map[Kind]*Term{}}
		for _, kd := range allKinds {
			if m, ok := s.mem[kd]; ok {
				k.vals[kd] = s.define("keep", Select(m, b))
			}
		}
		keeps = append(keeps, k)
	}
	s.e.epochs++
	s.epoch = s.e.epochs
	s.mem = map[Kind]*Term{}
	s.maps = map[string]*Term{}
	s.bumpNext()
	for _, k := range keeps {
		for _, kd := range allKinds {
			if val, ok := k.vals[kd]; ok {
				s.mem[kd] = s.define("M"+kd.String(), Store(s.memOf(kd), k.blk, val))
			}
		}
	}
	old := s.nonnil
	s.nonnil = map[string]bool{}
	for n := range s.private {
		if old[n] {
			s.nonnil[n] = true
		}
	}
	for n := range s.frozen {
		if old[n] {
			s.nonnil[n] = true
		}
	}
	s.loadNames = map[string]*Term{}
}

// escape marks every block referenced by v as reachable from outside this invocation.
func (s *State) escape(v Value) {
	if len(s.private) == 0 || v.cell != nil {
		return
	}
	for _, l := range v.L {
		if l.sort == SInt {
			delete(s.private, l.String())
		}
	}
}

// bumpNext models allocation by a callee: next grows by an unknown amount.
func (s *State) bumpNext() {
	n := s.e.sy.Fresh("next", SInt)
	s.assume(Ge(n, s.next))
	s.next = n
}

// assumeBlockTypes adds allocation-type facts for pointers and slices inside a value.
func (s *State) assumeBlockTypes(t types.Type, leaves []*Term) {
	switch u := t.Underlying().(type) {
	case *types.Pointer, *types.Slice:
		if leaves[0].op == "int" {
			return
		}
		if f := s.e.blockTypeFact(t, leaves[0], leaves[1]); f != nil {
			s.assume(f)
		}
	case *types.Struct:
		off := 0
		for i := 0; i < u.NumFields(); i++ {
			n := s.e.lay.Size(u.Field(i).Type())
			s.assumeBlockTypes(u.Field(i).Type(), leaves[off:off+n])
			off += n
		}
	case *types.Tuple:
		off := 0
		for i := 0; i < u.Len(); i++ {
			n := s.e.lay.Size(u.At(i).Type())
			s.assumeBlockTypes(u.At(i).Type(), leaves[off:off+n])
			off += n
		}
	}
}

// allocTyped allocates a block and records its allocation type.
func (s *State) allocTyped(t types.Type) *Term {
	b := s.allocBlock()
	s.assume(Eq(s.e.btype(b), s.e.allocTypeID(t)))
	return b
}

type heldLock struct {
	blk, off *Term
}

// heldTerm: the lock at (blk, off) is one of the locks held on this path.
func (s *State) heldTerm(blk, off *Term) *Term {
	var alts []*Term
	var ks []string
	for k := range s.held {
		ks = append(ks, k)
	}
	sort.Strings(ks)
	for _, k := range ks {
		h := s.held[k]
		alts = append(alts, And(Eq(blk, h.blk), Eq(off, h.off)))
	}
	return Or(alts...)
}

// dirty: something that an invariant of a held lock's owner may read has (possibly) been written.
func (s *State) dirty() {
	if os.Getenv("GOVC_DIRTY") != "" && len(s.clean) > 0 {
		fmt.Fprintf(os.Stderr, "dirty: %s\n", string(debug.Stack()))
	}
	for k := range s.clean {
		s.clean[k] = false
	}
}
