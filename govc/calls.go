package main

// Calls: builtins, contracts, inlining, unknown callees, defers, locks, loops.

import (
	"fmt"
	"go/token"
	"go/types"
	"os"
	"regexp"
	"sort"
	"strings"

	"golang.org/x/tools/go/ssa"
)

func (v *Verifier) evalCallOperands(st *State, call *ssa.CallCommon) (Value, []Value) {
	fnv := v.eval(st, call.Value)
	args := make([]Value, len(call.Args))
	for i, a := range call.Args {
		args[i] = v.eval(st, a)
	}
	return fnv, args
}

func (v *Verifier) runDefers(st *State, k func(*State)) {
	fr := st.top()
	if len(fr.defers) == 0 {
		k(st)
		return
	}
	d := fr.defers[len(fr.defers)-1]
	fr.defers = fr.defers[:len(fr.defers)-1]
	v.dispatchCall(st, d.call, d.fn, d.args, d.pos, func(st2 *State, _ Value) {
		v.runDefers(st2, k)
	})
}

func (v *Verifier) doCall(st *State, call *ssa.CallCommon, ins ssa.Instruction, k func(*State, Value)) {
	fnv, args := v.evalCallOperands(st, call)
	v.dispatchCall(st, call, fnv, args, ins, k)
}

func (v *Verifier) dispatchCall(st *State, call *ssa.CallCommon, fnv Value, args []Value, ins ssa.Instruction, k func(*State, Value)) {
	if call.IsInvoke() {
		v.callInvoke(st, call, fnv, args, ins, k)
		return
	}
	if b, ok := call.Value.(*ssa.Builtin); ok {
		v.builtin(st, b, call, args, ins, k)
		return
	}
	if fnv.clo != nil {
		v.callFunc(st, call, fnv.clo.fn, fnv.clo.bindings, args, ins, k)
		return
	}
	// call through a captured variable that holds, in the enclosing function, exactly one closure
	// literal (`matches := func(...)...`): the callee is that literal; the variables it captures
	// itself are unknown here (arbitrary values of their types)
	if u, ok := call.Value.(*ssa.UnOp); ok && u.Op == token.MUL {
		if fv, ok := u.X.(*ssa.FreeVar); ok {
			if lit := uniqueClosureOf(fv); lit != nil && !v.onStack(st, lit) {
				var binds []Value
				for _, lfv := range lit.FreeVars {
					cell := st.allocBlock()
					val := st.freshValue("cap_"+lfv.Name(), derefType(lfv.Type()))
					st.assumeWF(val)
					st.storeAt(cell, IntLit(0), val)
					binds = append(binds, Value{T: lfv.Type(), L: []*Term{cell, IntLit(0)}})
				}
				v.callFunc(st, call, lit, binds, args, ins, k)
				return
			}
		}
	}
	// call through a package-level function variable that carries a contract
	if u, ok := call.Value.(*ssa.UnOp); ok {
		if g, ok := u.X.(*ssa.Global); ok && g.Pkg != nil {
			if fc := v.e.ct.Funcs[relPkg(g.Pkg.Pkg.Path())+"."+g.Name()]; fc != nil {
				sig := call.Signature()
				var names []string
				for i := 0; i < sig.Params().Len(); i++ {
					names = append(names, sig.Params().At(i).Name())
				}
				if len(fc.ParamsAs) > 0 {
					names = fc.ParamsAs
				}
				k(st, v.applyContract(st, fc, sig, names, args, ins, g.Name()))
				return
			}
		}
	}
	// dynamic call of an unknown function value: type-level contract for function values received
	// from the environment (listed assumption): it modifies only what its arguments reach
	if len(fnv.L) == 1 {
		v.checkNonNil(st, fnv.L[0], "call "+describe(call.Value), ins.Pos())
	}
	v.callUnknown(st, call.Signature(), args, false, "dyn", k)
}

func resultType(sig *types.Signature) types.Type {
	if sig.Results().Len() == 1 {
		return sig.Results().At(0).Type()
	}
	return sig.Results()
}

func (v *Verifier) callUnknown(st *State, sig *types.Signature, args []Value, havocAll bool, hint string, k func(*State, Value)) {
	for _, a := range args {
		v.escapeValue(st, a)
	}
	if havocAll {
		st.havocAll()
	} else {
		for _, a := range args {
			if a.cell != nil {
				continue
			}
			switch a.T.Underlying().(type) {
			case *types.Pointer, *types.Slice:
				st.havocBlock(a.L[0])
			case *types.Interface:
				st.havocBlock(a.L[1])
			case *types.Map:
				v.mapHavoc(st, a.T.Underlying().(*types.Map), a.L[0])
			}
		}
		st.bumpNext()
	}
	res := st.freshValue("ret_"+hint, resultType(sig))
	k(st, res)
}

func isRepoFunc(fn *ssa.Function) bool {
	root := fn
	for root.Parent() != nil {
		root = root.Parent()
	}
	if o := root.Origin(); o != nil {
		root = o
	}
	var pkg *types.Package
	if root.Pkg != nil {
		pkg = root.Pkg.Pkg
	} else if root.Object() != nil {
		pkg = root.Object().Pkg()
	}
	return pkg != nil && strings.HasPrefix(pkg.Path(), modulePath)
}

func (v *Verifier) onStack(st *State, fn *ssa.Function) bool {
	for _, f := range st.frames {
		if f.fn == fn {
			return true
		}
	}
	return false
}

func (v *Verifier) callFunc(st *State, call *ssa.CallCommon, fn *ssa.Function, bindings []Value, args []Value, ins ssa.Instruction, k func(*State, Value)) {
	key := funcKey(fn)
	if v.modelled(st, key, call, fn, args, ins, k) {
		return
	}
	fc := v.e.ct.Funcs[key]
	if fc == nil {
		for _, re := range v.e.ct.InlineRe {
			if re.MatchString(key) {
				fc = &FuncContract{Key: key, Inline: true, Loops: map[int][]*Clause{}}
				v.e.ct.Funcs[key] = fc
				break
			}
		}
	}
	if fc != nil && !fc.Inline {
		// a closure called under its own contract: the contract speaks about the captured variables
		v.pendingFree = nil
		for i, fv := range fn.FreeVars {
			if i < len(bindings) {
				v.pendingFree = append(v.pendingFree, freeBinding{fv.Name(), bindings[i], fv.Type()})
			}
		}
		v.e.calleeFn = fn
		res := v.applyContract(st, fc, fn.Signature, v.paramNames(fn, fc), args, ins, shortKey(key))
		v.e.calleeFn = nil
		k(st, res)
		return
	}
	body := fn
	if len(body.Blocks) == 0 && fn.Origin() != nil {
		body = fn.Origin()
	}
	local := fn.Parent() != nil && v.isAncestorOrSelf(fn.Parent())
	if (fc != nil && fc.Inline) || local {
		if len(body.Blocks) > 0 && !v.e.info(body).hasLoop && !v.onStack(st, body) && st.top().depth < 8 {
			// a generic body inlined for an instantiation: results take the instantiated types
			rt := resultType(call.Signature())
			caller := st.top()
			k2 := func(st2 *State, res Value) {
				v.e.lay.subst = caller.subst
				k(st2, v.coerceTo(res, rt))
			}
			v.inlineSubst = nil
			if os.Getenv("GOVC_DEBUG_INLINE") != "" {
				fmt.Fprintf(os.Stderr, "inline %s body=%v origin=%v targs=%v synthetic=%q blocks=%d\n", key, body != fn, fn.Origin() != nil, fn.TypeArgs(), fn.Synthetic, len(fn.Blocks))
			}
			switch {
			case body != fn:
				v.inlineSubst = typeArgSubst(body, fn, caller.subst)
			case strings.HasPrefix(caller.fn.Synthetic, "instantiation wrapper") && caller.fn.Origin() == fn:
				// go/ssa calls a generic body through an instantiation wrapper that holds the type arguments
				v.inlineSubst = typeArgSubst(fn, caller.fn, caller.subst)
			case strings.HasPrefix(fn.Synthetic, "instantiation wrapper") && fn.Origin() != nil:
				// the wrapper's own instructions mention the generic body's types (the result tuple of its call)
				v.inlineSubst = typeArgSubst(fn.Origin(), fn, caller.subst)
			}
			if os.Getenv("GOVC_DEBUG_INLINE") != "" {
				fmt.Fprintf(os.Stderr, "   subst=%v callerSynthetic=%q sameOrigin=%v\n", v.inlineSubst, caller.fn.Synthetic, caller.fn.Origin() == fn)
			}
			v.inline(st, body, bindings, args, k2)
			return
		}
		if fc != nil && fc.Inline {
			v.fail("cannot inline %s (loops, recursion or no body)", key)
		}
	}
	v.callUnknown(st, fn.Signature, args, isRepoFunc(fn), shortKey(key), k)
}

func (v *Verifier) isAncestorOrSelf(fn *ssa.Function) bool {
	for f := fn; f != nil; f = f.Parent() {
		if f == v.fn {
			return true
		}
	}
	// closures created by an ancestor of the function under proof (siblings)
	for f := v.fn; f != nil; f = f.Parent() {
		if f == fn {
			return true
		}
	}
	return false
}

func (v *Verifier) inline(st *State, fn *ssa.Function, bindings []Value, args []Value, k func(*State, Value)) {
	fr := &Frame{fn: fn, regs: map[ssa.Value]Value{}, cells: map[*ssa.Alloc]Value{}, info: v.e.info(fn), entryParams: map[string]Value{}, depth: st.top().depth + 1}
	if len(args) != len(fn.Params) {
		v.fail("inline %s: %d args for %d params", funcKey(fn), len(args), len(fn.Params))
	}
	for i, p := range fn.Params {
		a := args[i]
		a.T = p.Type()
		fr.regs[p] = a
		fr.entryParams[p.Name()] = a
	}
	if len(bindings) != len(fn.FreeVars) {
		v.fail("inline %s: %d bindings for %d free vars", funcKey(fn), len(bindings), len(fn.FreeVars))
	}
	for i, fv := range fn.FreeVars {
		fr.regs[fv] = bindings[i]
	}
	fr.ret = k
	fr.subst = v.inlineSubst
	v.inlineSubst = nil
	st.frames = append(st.frames, fr)
	v.enterBlock(st, nil, fn.Blocks[0])
}

// typeArgSubst maps the type parameters of a generic body to the type arguments of the instance being
// inlined. Only arguments whose layout differs from the opaque single slot matter: a type parameter of
// the function under verification whose constraint has methods (laid out like an interface value).
func typeArgSubst(body, inst *ssa.Function, outer map[*types.TypeParam]types.Type) map[*types.TypeParam]types.Type {
	targs := inst.TypeArgs()
	if len(targs) == 0 {
		return nil
	}
	var tps *types.TypeParamList
	if sig := body.Signature; sig.RecvTypeParams() != nil && sig.RecvTypeParams().Len() > 0 {
		tps = sig.RecvTypeParams()
	} else {
		tps = body.Signature.TypeParams()
	}
	if tps == nil || tps.Len() != len(targs) {
		return nil
	}
	var out map[*types.TypeParam]types.Type
	for i := 0; i < tps.Len(); i++ {
		a := targs[i]
		if tp, ok := a.(*types.TypeParam); ok {
			if o, ok := outer[tp]; ok {
				a = o
			}
		}
		if tp, isTP := a.(*types.TypeParam); isTP {
			if ci, ok := tp.Constraint().Underlying().(*types.Interface); !ok || ci.NumMethods() == 0 {
				continue // opaque either way
			}
		}
		if out == nil {
			out = map[*types.TypeParam]types.Type{}
		}
		out[tps.At(i)] = a
	}
	return out
}

// paramNames lists contract-visible parameter names (receiver first).
func (v *Verifier) paramNames(fn *ssa.Function, fc *FuncContract) []string {
	if fc != nil && len(fc.ParamsAs) > 0 {
		return fc.ParamsAs
	}
	src := fn
	if o := fn.Origin(); o != nil {
		src = o
	}
	var names []string
	if len(src.Params) > 0 {
		for i, p := range src.Params {
			n := p.Name()
			if n == "" || n == "_" {
				n = fmt.Sprintf("_%d", i)
			}
			names = append(names, n)
		}
		return names
	}
	sig := fn.Signature
	if sig.Recv() != nil {
		n := sig.Recv().Name()
		if n == "" || n == "_" {
			n = "self"
		}
		names = append(names, n)
	}
	for i := 0; i < sig.Params().Len(); i++ {
		n := sig.Params().At(i).Name()
		if n == "" || n == "_" {
			n = fmt.Sprintf("_%d", i)
		}
		names = append(names, n)
	}
	return names
}

func (v *Verifier) calleeEnv(st *State, fn *ssa.Function, fc *FuncContract, fnv Value, args []Value) *Env {
	env := &Env{v: v, vars: map[string]Value{}, pkgPath: fc.PkgPath}
	names := v.paramNames(fn, fc)
	for i, n := range names {
		if i < len(args) {
			env.vars[n] = args[i]
		}
	}
	if fnv.clo != nil {
		for i, fv := range fn.FreeVars {
			if i < len(fnv.clo.bindings) {
				env.freeVars = append(env.freeVars, freeBinding{fv.Name(), fnv.clo.bindings[i], fv.Type()})
			}
		}
	}
	return env
}

// applyContract: assert requires, havoc footprint, assume ensures.
func (v *Verifier) applyContract(st *State, fc *FuncContract, sig *types.Signature, names []string, args []Value, ins ssa.Instruction, what string) Value {
	env := &Env{v: v, vars: map[string]Value{}, pkgPath: fc.PkgPath}
	env.freeVars, v.pendingFree = v.pendingFree, nil
	for i, n := range names {
		if i < len(args) {
			env.vars[n] = args[i]
		}
	}
	if len(names) > 0 && len(args) > 0 && (sig.Recv() != nil || fc.IsIface) {
		env.vars["self"] = args[0]
	}
	for i, cl := range fc.Requires {
		t := v.evalBoolIn(st, env, cl)
		v.oblige(st, "pre", fmt.Sprintf("%s:%s", what, clauseLabel(cl, i)), t, ins.Pos(), cl)
		st.assumeTagged(t, cl.Label)
	}
	if !fc.Pure {
		for _, a := range args {
			v.escapeValue(st, a)
		}
	}
	old := st.snapshot()
	switch {
	case fc.ModAll:
		st.havocAll()
	case len(fc.Modifies) > 0:
		// the callee may allocate: pointers it leaves in the modified locations may be new blocks
		st.bumpNext()
		for _, m := range fc.Modifies {
			v.havocLValue(st, env, m)
		}
	case !fc.Pure || fc.Fresh:
		st.bumpNext()
	}
	res := st.freshValue("ret_"+what, resultType(sig))
	if fc.Fresh {
		lay := v.e.lay.Of(sig.Results())
		for i, sl := range lay {
			if sl.Role == RBlk || sl.Role == RRef {
				st.assume(Or(Eq(res.L[i], IntLit(0)), Ge(res.L[i], old.next)))
			}
		}
	}
	env.old = old
	v.bindResults(env, sig, fc, res)
	for _, cl := range fc.Ensures {
		if fc.mentionsGhostLocal(cl) {
			continue // a postcondition over the callee's own ghost locals says nothing a caller can use
		}
		t := v.evalBoolIn(st, env, cl)
		st.assumeTagged(t, cl.Label)
	}
	return res
}

func (fc *FuncContract) mentionsGhostLocal(cl *Clause) bool {
	for name := range fc.GhostLocals {
		if regexp.MustCompile(`\b` + regexp.QuoteMeta(name) + `\b`).MatchString(cl.Src) {
			return true
		}
	}
	return false
}

func (v *Verifier) bindResults(env *Env, sig *types.Signature, fc *FuncContract, res Value) {
	rt := sig.Results()
	off := 0
	for i := 0; i < rt.Len(); i++ {
		t := rt.At(i).Type()
		n := v.e.lay.Size(t)
		val := res.sub(off, n, t)
		off += n
		if rt.Len() == 1 {
			env.vars["result"] = val
		}
		env.vars[fmt.Sprintf("result%d", i)] = val
		if name := rt.At(i).Name(); name != "" && name != "_" {
			if _, exists := env.vars[name]; !exists {
				env.vars[name] = val
			}
		}
		if fc != nil && i < len(fc.ResultsAs) {
			env.vars[fc.ResultsAs[i]] = val
		}
		// convenience: the error result is always reachable as "err" if it is the last one
		if i == rt.Len()-1 && types.TypeString(t, nil) == "error" {
			if _, exists := env.vars["err"]; !exists {
				env.vars["err"] = val
			}
		}
	}
}

func (v *Verifier) callInvoke(st *State, call *ssa.CallCommon, recv Value, args []Value, ins ssa.Instruction, k func(*State, Value)) {
	if _, isTP := call.Value.Type().(*types.TypeParam); isTP {
		// a value of type-parameter type always has a concrete dynamic type: the call itself cannot
		// fail on a nil interface (a nil pointer receiver is the callee's business)
		st.assume(Not(Eq(recv.L[0], IntLit(0))))
	} else {
		v.checkNonNil(st, recv.L[0], "invoke "+describe(call.Value)+"."+call.Method.Name(), ins.Pos())
	}
	sig := call.Method.Type().(*types.Signature)
	// devirtualise when the dynamic type is a literal
	if iv, ok := recv.L[0].IsInt(); ok {
		if t := v.e.tidType[int(iv.Int64())]; t != nil {
			ms := v.e.prog.MethodSets.MethodSet(t)
			if sel := ms.Lookup(call.Method.Pkg(), call.Method.Name()); sel != nil {
				if fn := v.e.prog.MethodValue(sel); fn != nil {
					var self Value
					if isPointerShaped(t) {
						self = Value{T: t, L: []*Term{recv.L[1], recv.L[2]}}
					} else {
						self = st.loadAt(recv.L[1], recv.L[2], t)
					}
					all := append([]Value{self}, args...)
					v.callFunc(st, call, fn, nil, all, ins, k)
					return
				}
			}
		}
	}
	key := v.ifaceKey(call.Method)
	fc := v.e.ct.Funcs[key]
	if fc == nil {
		// unknown implementation: arbitrary effect
		v.callUnknown(st, sig, args, true, call.Method.Name(), k)
		return
	}
	names := []string{"self"}
	for i := 0; i < sig.Params().Len(); i++ {
		n := sig.Params().At(i).Name()
		if n == "" || n == "_" {
			n = fmt.Sprintf("_%d", i)
		}
		names = append(names, n)
	}
	if len(fc.ParamsAs) > 0 {
		names = append([]string{"self"}, fc.ParamsAs...)
	}
	all := append([]Value{recv}, args...)
	res := v.applyContract(st, fc, sig, names, all, ins, shortKey(strings.TrimPrefix(key, "iface:")))
	k(st, res)
}

// ifaceKey: "iface:<relpkg>.<Iface>.<Method>" for the interface that declares the method.
func (v *Verifier) ifaceKey(m *types.Func) string {
	sig := m.Type().(*types.Signature)
	if sig.Recv() != nil {
		if n, ok := sig.Recv().Type().(*types.Named); ok && n.Obj().Pkg() != nil {
			return "iface:" + relPkg(n.Obj().Pkg().Path()) + "." + n.Obj().Name() + "." + m.Name()
		}
		if n, ok := sig.Recv().Type().(*types.Named); ok {
			return "iface:" + n.Obj().Name() + "." + m.Name() // universe: error.Error
		}
	}
	return "iface:?." + m.Name()
}

// ---------------------------------------------------------------------------
// builtins

func (v *Verifier) builtin(st *State, b *ssa.Builtin, call *ssa.CallCommon, args []Value, ins ssa.Instruction, k func(*State, Value)) {
	rt := call.Signature().Results()
	one := func(t *Term) {
		var tt types.Type = rt
		k(st, Value{T: tt, L: []*Term{t}})
	}
	switch b.Name() {
	case "len":
		one(v.lenOf(st, args[0], call.Args[0].Type()))
	case "cap":
		switch call.Args[0].Type().Underlying().(type) {
		case *types.Slice:
			one(args[0].L[3])
		default:
			r := st.freshValue("cap", rt)
			k(st, r)
		}
	case "append":
		v.doAppend(st, args[0], args[1], call.Args[0].Type(), ins, k)
	case "copy":
		// dst contents become unknown; result n in [0, min(len)]
		dst := args[0]
		st.havocBlock(dst.L[0])
		r := st.freshValue("copied", rt)
		st.assume(And(Ge(r.L[0], IntLit(0)), Le(r.L[0], dst.L[2])))
		if _, ok := call.Args[1].Type().Underlying().(*types.Slice); ok {
			st.assume(Le(r.L[0], args[1].L[2]))
			st.assume(Or(Eq(r.L[0], dst.L[2]), Eq(r.L[0], args[1].L[2])))
		}
		k(st, r)
	case "delete":
		mt := call.Args[0].Type().Underlying().(*types.Map)
		if st.top().depth == 0 {
			v.checkMapFrame(st, args[0].L[0], mt, call.Pos(), "delete from "+describe(call.Args[0]))
		}
		v.mapDelete(st, mt, args[0].L[0], args[1])
		k(st, Value{T: rt})
	case "min", "max":
		acc := args[0].L[0]
		for _, a := range args[1:] {
			if acc.sort != SInt {
				v.fail("min/max on non-integers")
			}
			if b.Name() == "min" {
				acc = Ite(Le(acc, a.L[0]), acc, a.L[0])
			} else {
				acc = Ite(Ge(acc, a.L[0]), acc, a.L[0])
			}
		}
		one(st.define(b.Name(), acc))
	case "close":
		if len(args) == 1 && len(args[0].L) == 1 {
			arr := st.mapArr("chan$closed", ArraySort(SInt, SBool))
			st.maps["chan$closed"] = st.define("closed", Store(arr, args[0].L[0], TTrue))
		}
		k(st, Value{T: rt})
	case "print", "println":
		k(st, Value{T: rt})
	case "recover":
		// recover() is modelled as returning nil: panics are proved absent instead
		k(st, v.e.zeroValue(rt.At(0).Type()))
	case "clear":
		switch t := call.Args[0].Type().Underlying().(type) {
		case *types.Map:
			v.mapInitEmpty(st, t, args[0].L[0])
		default:
			st.havocBlock(args[0].L[0])
		}
		k(st, Value{T: rt})
	case "ssa:wrapnilchk":
		v.checkNonNil(st, args[0].L[0], "method value receiver", ins.Pos())
		k(st, Value{T: rt, L: args[0].L})
	case "ssa:deferstack":
		k(st, Value{T: rt, L: []*Term{IntLit(0)}})
	default:
		v.fail("unsupported builtin %s", b.Name())
	}
}

func (v *Verifier) lenOf(st *State, x Value, t types.Type) *Term {
	switch tt := t.Underlying().(type) {
	case *types.Slice:
		return x.L[2]
	case *types.Basic:
		n := v.e.strLen(x.L[0])
		st.assume(Ge(n, IntLit(0)))
		return n
	case *types.Map:
		n := v.mapLen(st, tt, x.L[0])
		st.assume(Ge(n, IntLit(0)))
		return n
	case *types.Array:
		return IntLit(tt.Len())
	case *types.Pointer:
		if at, ok := tt.Elem().Underlying().(*types.Array); ok {
			return IntLit(at.Len())
		}
	case *types.Chan:
		r := st.freshValue("chanlen", types.Typ[types.Int])
		st.assume(Ge(r.L[0], IntLit(0)))
		return r.L[0]
	}
	v.fail("len of %v", t)
	return nil
}

// doAppend models append(s, t...) following Go's rule: in place when capacity
// suffices, otherwise a fresh backing array.
func (v *Verifier) doAppend(st *State, s, t Value, stype types.Type, ins ssa.Instruction, k func(*State, Value)) {
	sl, ok := stype.Underlying().(*types.Slice)
	if !ok {
		v.fail("append to %v", stype)
	}
	elem := sl.Elem()
	es := int64(v.e.lay.Size(elem))
	var n *Term
	tIsString := false
	if len(t.L) == 1 { // append([]byte, string...)
		tIsString = true
		n = v.e.strLen(t.L[0])
		st.assume(Ge(n, IntLit(0)))
	} else {
		n = t.L[2]
	}
	newLen := Add(s.L[2], n)
	lay := v.e.lay.Of(elem)
	kinds := map[Kind]bool{}
	for _, l := range lay {
		kinds[l.K] = true
	}
	// copyIn writes t's elements at s.off + len(s)*es .. in block blk
	copyIn := func(st *State, blk *Term) {
		if tIsString {
			inner := Select(st.memOf(KY), blk)
			fresh := v.e.sy.Fresh("app", ArraySort(SInt, SInt))
			i := v.e.sy.Fresh("i", SInt)
			base := Add(s.L[1], s.L[2])
			st.assume(Forall([]*Term{i}, Ite(And(Ge(i, base), Lt(i, Add(base, n))),
				Eq(mk("select", SInt, fresh, i), v.e.sy.App("str_at", SInt, t.L[0], Sub(i, base))),
				Eq(mk("select", SInt, fresh, i), mk("select", SInt, inner, i)))))
			st.mem[KY] = st.define("MY", Store(st.memOf(KY), blk, fresh))
			return
		}
		if nv, ok := n.IsInt(); ok && nv.IsInt64() && nv.Int64() <= 8 {
			for j := int64(0); j < nv.Int64(); j++ {
				ev := st.loadAtRaw(t.L[0], Add(t.L[1], IntLit(j*es)), elem)
				st.storeAt(blk, Add(s.L[1], strideOf(Add(s.L[2], IntLit(j)), int64(es))), ev)
			}
			return
		}
		// symbolic count: quantified description per kind
		for _, kd := range allKinds {
			if !kinds[kd] {
				continue
			}
			inner := Select(st.memOf(kd), blk)
			src := Select(st.memOf(kd), t.L[0])
			fresh := v.e.sy.Fresh("app", ArraySort(SInt, kd.Sort()))
			i := v.e.sy.Fresh("i", SInt)
			base := Add(s.L[1], strideOf(s.L[2], int64(es)))
			end := Add(base, strideOf(n, int64(es)))
			st.assumeTagged(Forall([]*Term{i}, Ite(And(Ge(i, base), Lt(i, end)),
				Eq(mk("select", kd.Sort(), fresh, i), mk("select", kd.Sort(), src, Add(t.L[1], Sub(i, base)))),
				Eq(mk("select", kd.Sort(), fresh, i), mk("select", kd.Sort(), inner, i)))), "append")
			st.mem[kd] = st.define("M"+kd.String(), Store(st.memOf(kd), blk, fresh))
		}
	}
	fits := Le(newLen, s.L[3])
	// appending nothing returns s unchanged
	if nv, ok := n.IsInt(); ok && nv.Sign() == 0 {
		k(st, Value{T: stype, L: s.L})
		return
	}
	v.countPath()
	st2 := st.clone()
	// in place
	if !fits.IsFalse() {
		st.assume(fits)
		st.assume(Neq(s.L[0], IntLit(0)))
		copyIn(st, s.L[0])
		k(st, Value{T: stype, L: []*Term{s.L[0], s.L[1], newLen, s.L[3]}})
	}
	// reallocation
	if !fits.IsTrue() {
		st2.assume(Not(fits))
		blk := st2.allocTyped(types.NewSlice(elem))
		for _, kd := range allKinds {
			if !kinds[kd] {
				continue
			}
			st2.mem[kd] = st2.define("M"+kd.String(), Store(st2.memOf(kd), blk, Select(st2.memOf(kd), s.L[0])))
		}
		copyIn(st2, blk)
		nc := v.e.sy.Fresh("newcap", SInt)
		st2.assume(Ge(nc, newLen))
		st2.nonnil[blk.String()] = true
		k(st2, Value{T: stype, L: []*Term{blk, s.L[1], newLen, nc}})
	}
}

// loadAtRaw reads memory without adding well-formedness assumptions.
func (s *State) loadAtRaw(blk, off *Term, t types.Type) Value {
	lay := s.e.lay.Of(t)
	v := Value{T: t, L: make([]*Term, len(lay))}
	for i, sl := range lay {
		v.L[i] = Select(Select(s.memOf(sl.K), blk), Add(off, IntLit(int64(i))))
	}
	return v
}

// ---------------------------------------------------------------------------
// engine-modelled library functions (locks)

func (v *Verifier) modelled(st *State, key string, call *ssa.CallCommon, fn *ssa.Function, args []Value, ins ssa.Instruction, k func(*State, Value)) bool {
	unit := Value{T: resultType(fn.Signature)}
	switch key {
	case "sync.(*Mutex).Lock", "sync.(*RWMutex).Lock", "sync.(*RWMutex).RLock":
		v.checkNonNil(st, args[0].L[0], "lock receiver", ins.Pos())
		v.lockAcquire(st, call.Args[0], args[0], ins)
		k(st, unit)
		return true
	case "sync.(*Mutex).Unlock", "sync.(*RWMutex).Unlock", "sync.(*RWMutex).RUnlock":
		v.checkNonNil(st, args[0].L[0], "unlock receiver", ins.Pos())
		v.lockRelease(st, call.Args[0], args[0], ins)
		k(st, unit)
		return true
	case "sync.(*Cond).Wait":
		v.checkNonNil(st, args[0].L[0], "cond receiver", ins.Pos())
		v.condWait(st, call.Args[0], args[0], ins)
		k(st, unit)
		return true
	case "sync.(*Cond).Broadcast", "sync.(*Cond).Signal":
		v.checkNonNil(st, args[0].L[0], "cond receiver", ins.Pos())
		k(st, unit)
		return true
	}
	return false
}

func lockKey(mu Value) string { return mu.L[0].String() + "+" + mu.L[1].String() }

// ownerOf: for a mutex expression &X.mu returns X's value, its named type and the field name.
func (v *Verifier) ownerOf(st *State, muExpr ssa.Value) (Value, *types.Named, string, bool) {
	fa, ok := muExpr.(*ssa.FieldAddr)
	if !ok {
		return Value{}, nil, "", false
	}
	pt := fa.X.Type()
	named, ok := derefType(pt).(*types.Named)
	if !ok {
		return Value{}, nil, "", false
	}
	stt := named.Underlying().(*types.Struct)
	owner := v.eval(st, fa.X)
	if owner.cell != nil {
		return Value{}, nil, "", false
	}
	return owner, named, stt.Field(fa.Field).Name(), true
}

func typeKey(n *types.Named) string {
	if n.Obj().Pkg() == nil {
		return n.Obj().Name()
	}
	return relPkg(n.Obj().Pkg().Path()) + "." + n.Obj().Name()
}

func (v *Verifier) lockAcquire(st *State, muExpr ssa.Value, mu Value, ins ssa.Instruction) {
	key := lockKey(mu)
	st.held[key] = &heldLock{mu.L[0], mu.L[1]}
	owner, named, field, ok := v.ownerOf(st, muExpr)
	if !ok {
		return
	}
	tc := v.e.ct.Types[typeKey(named)]
	if tc == nil {
		return
	}
	prev := st.lastRel[key]
	if prev == nil {
		prev = st.loopBase
	}
	if prev == nil {
		prev = st.entry
	}
	v.havocGuarded(st, owner, named, tc, field)
	v.assumeTypeInv(st, owner, named, tc)
	v.assumeRely(st, owner, tc, prev)
	if v.fc != nil && st.top().depth == 0 {
		env := v.loopEnv(st)
		for _, cl := range v.fc.AssumesAcq {
			st.assumeTagged(v.evalBoolIn(st, env, cl), cl.Label)
		}
	}
	st.acq = st.snapshot()
	if st.clean == nil {
		st.clean = map[string]bool{}
	}
	st.clean[key] = true
	// blocks read by the owner's invariants: the owner itself and the backing arrays of its guarded slices
	if st.watch == nil {
		st.watch = map[string]func(*State) []*Term{}
	}
	stt := named.Underlying().(*types.Struct)
	ownerBlk, ownerOff := owner.L[0], owner.L[1]
	var sliceOffs []int
	for _, fields := range tc.GuardedBy {
		for _, f := range fields {
			for i := 0; i < stt.NumFields(); i++ {
				if stt.Field(i).Name() == f {
					if _, ok := stt.Field(i).Type().Underlying().(*types.Slice); ok {
						sliceOffs = append(sliceOffs, v.e.lay.FieldOff(stt, i))
					}
				}
			}
		}
	}
	st.watch[key] = func(s *State) []*Term {
		out := []*Term{ownerBlk}
		for _, o := range sliceOffs {
			out = append(out, s.nameLoad(Select(Select(s.memOf(KI), ownerBlk), Add(ownerOff, IntLit(int64(o))))))
		}
		return out
	}
}

func (v *Verifier) lockRelease(st *State, muExpr ssa.Value, mu Value, ins ssa.Instruction) {
	key := lockKey(mu)
	if st.held[key] == nil && len(st.held) == 1 {
		// the same lock reached through a different (but equal) pointer term
		for k, h := range st.held {
			v.oblige(st, "lock", "unlock releases the lock that is held", And(Eq(mu.L[0], h.blk), Eq(mu.L[1], h.off)), ins.Pos(), nil)
			key = k
		}
	} else if st.held[key] == nil {
		v.oblige(st, "lock", "unlock of a lock that is held", st.heldTerm(mu.L[0], mu.L[1]), ins.Pos(), nil)
	}
	owner, named, _, ok := v.ownerOf(st, muExpr)
	if ok {
		if tc := v.e.ct.Types[typeKey(named)]; tc != nil {
			if st.clean[key] {
				v.framedInv(st, named, tc, "unlock", ins.Pos())
			} else {
				v.assertTypeInv(st, owner, named, tc, "unlock", ins.Pos())
				v.assertGuarantee(st, owner, named, tc, "unlock", ins.Pos())
			}
		}
	}
	delete(st.clean, key)
	delete(st.watch, key)
	if st.lastRel == nil {
		st.lastRel = map[string]*State{}
	}
	st.lastRel[key] = st.snapshot()
	delete(st.held, key)
}

func (v *Verifier) condWait(st *State, condExpr ssa.Value, cond Value, ins ssa.Instruction) {
	// cond expression is a load of field X.c ; the owner is X and the mutex the one declared guarded_by
	u, ok := condExpr.(*ssa.UnOp)
	if !ok {
		st.havocAll()
		return
	}
	fa, ok := u.X.(*ssa.FieldAddr)
	if !ok {
		st.havocAll()
		return
	}
	named, ok := derefType(fa.X.Type()).(*types.Named)
	if !ok {
		st.havocAll()
		return
	}
	tc := v.e.ct.Types[typeKey(named)]
	if tc == nil || len(tc.GuardedBy) != 1 {
		st.havocAll()
		return
	}
	owner := v.eval(st, fa.X)
	var mu string
	for m := range tc.GuardedBy {
		mu = m
	}
	// the one lock held is the cond's mutex (a Wait with another lock held is not modelled)
	allClean := len(st.held) == 1
	for k := range st.held {
		if !st.clean[k] {
			allClean = false
		}
	}
	if allClean {
		v.framedInv(st, named, tc, "wait", ins.Pos())
	} else {
		v.assertTypeInv(st, owner, named, tc, "wait", ins.Pos())
		v.assertGuarantee(st, owner, named, tc, "wait", ins.Pos())
	}
	prev := st.snapshot()
	v.havocGuarded(st, owner, named, tc, mu)
	v.assumeTypeInv(st, owner, named, tc)
	v.assumeRely(st, owner, tc, prev)
	st.acq = st.snapshot()
	for k := range st.held {
		if st.clean == nil {
			st.clean = map[string]bool{}
		}
		st.clean[k] = true
	}
}

func (v *Verifier) havocGuarded(st *State, owner Value, named *types.Named, tc *TypeContract, mu string) {
	stt := named.Underlying().(*types.Struct)
	for _, f := range tc.GuardedBy[mu] {
		found := false
		for i := 0; i < stt.NumFields(); i++ {
			if stt.Field(i).Name() != f {
				continue
			}
			found = true
			ft := stt.Field(i).Type()
			off := Add(owner.L[1], IntLit(int64(v.e.lay.FieldOff(stt, i))))
			nv := st.freshValue("g_"+f, ft)
			st.storeAt(owner.L[0], off, nv)
			// contents reachable through the field are guarded as well
			switch u := ft.Underlying().(type) {
			case *types.Slice:
				st.havocBlock(nv.L[0])
			case *types.Map:
				v.mapHavoc(st, u, nv.L[0])
			}
		}
		if !found {
			// ghost field
			for _, g := range tc.Ghost {
				if g.Name == f {
					found = true
					gt, err := v.e.resolveType(g.Type, tc.PkgPath)
					if err != nil {
						v.fail("ghost field type: %v", err)
					}
					nv := st.freshValue("gg_"+f, gt)
					v.ghostStore(st, typeKey(named), f, owner.L[0], owner.L[1], nv)
					if _, ok := gt.Underlying().(*types.Slice); ok {
						st.havocBlock(nv.L[0])
					}
				}
			}
		}
		if !found {
			v.fail("guarded_by: unknown field %s of %s", f, named)
		}
	}
}

func (v *Verifier) typeInvEnv(st *State, owner Value, tc *TypeContract) *Env {
	env := &Env{v: v, vars: map[string]Value{"self": owner}, pkgPath: tc.PkgPath, old: st.entry}
	return env
}

func (v *Verifier) assumeTypeInv(st *State, owner Value, named *types.Named, tc *TypeContract) {
	env := v.typeInvEnv(st, owner, tc)
	for _, cl := range tc.Invariant {
		st.assumeTagged(v.evalBoolIn(st, env, cl), cl.Label)
	}
}

func (v *Verifier) assertTypeInv(st *State, owner Value, named *types.Named, tc *TypeContract, when string, p token.Pos) {
	env := v.typeInvEnv(st, owner, tc)
	for i, cl := range tc.Invariant {
		t := v.evalBoolIn(st, env, cl)
		v.oblige(st, "inv", fmt.Sprintf("%s:%s@%s", named.Obj().Name(), clauseLabel(cl, i), when), t, p, cl)
	}
}

// checkGuard: access to a guarded field requires the lock (static discipline).
func (v *Verifier) checkGuard(st *State, addrExpr ssa.Value, p token.Pos) {
	fa, ok := addrExpr.(*ssa.FieldAddr)
	if !ok {
		return
	}
	named, ok := derefType(fa.X.Type()).(*types.Named)
	if !ok {
		return
	}
	tc := v.e.ct.Types[typeKey(named)]
	if tc == nil || len(tc.GuardedBy) == 0 {
		return
	}
	stt := named.Underlying().(*types.Struct)
	fname := stt.Field(fa.Field).Name()
	for mu, fields := range tc.GuardedBy {
		for _, f := range fields {
			if f != fname {
				continue
			}
			// locate mutex field
			for i := 0; i < stt.NumFields(); i++ {
				if stt.Field(i).Name() == mu {
					owner := v.eval(st, fa.X)
					if owner.cell != nil {
						return
					}
					muv := Value{L: []*Term{owner.L[0], Add(owner.L[1], IntLit(int64(v.e.lay.FieldOff(stt, i))))}}
					if st.held[lockKey(muv)] == nil {
						// an object allocated by this invocation is not shared yet
						v.oblige(st, "lock", fmt.Sprintf("%s.%s accessed with %s held", named.Obj().Name(), fname, mu), Or(Ge(owner.L[0], v.entry.next), st.heldTerm(muv.L[0], muv.L[1])), p, nil)
					}
				}
			}
		}
	}
}

// checkFrame: stores must stay inside the declared footprint (only when the
// function declares one).
func (v *Verifier) checkFrame(st *State, addr, val Value, p token.Pos, addrExpr ssa.Value) {
	if v.fc == nil || !v.fc.frameChecked() || st.top().depth < 0 {
		return
	}
	blk := addr.L[0]
	// fresh in this invocation
	fresh := Ge(blk, v.entry.next)
	if fresh.IsTrue() {
		return
	}
	allowed := []*Term{fresh}
	env := v.entryEnv(st)
	env.old = v.entry
	for _, m := range v.fc.Modifies {
		loc, ok := v.evalLocOld(st, env, m)
		if !ok {
			continue
		}
		if loc.whole && loc.rangeLen != nil {
			allowed = append(allowed, And(Eq(blk, loc.blk), Ge(addr.L[1], loc.off), Lt(addr.L[1], Add(loc.off, loc.rangeLen))))
		} else if loc.whole {
			allowed = append(allowed, Eq(blk, loc.blk))
		} else {
			allowed = append(allowed, And(Eq(blk, loc.blk), Ge(addr.L[1], loc.off), Lt(addr.L[1], Add(loc.off, IntLit(int64(loc.size))))))
		}
	}
	v.oblige(st, "frame", "store "+describe(addrExpr), Or(allowed...), p, nil)
}

// checkMapFrame: a map written (insert, overwrite, delete, clear) by a function that declares a
// footprint must be a map made by this invocation, or the map that one of the declared locations held
// on entry (or holds now: a location the function has re-pointed to another map of its own).
func (v *Verifier) checkMapFrame(st *State, ref *Term, mt *types.Map, p token.Pos, what string) {
	if v.fc == nil || !v.fc.frameChecked() || st.top().depth < 0 {
		return
	}
	// a footprint that names only ghost variables says nothing about program memory (monitors write
	// their guarded maps under the lock); map writes are checked once the contract names real
	// locations or declares writes_nothing
	real := v.fc.FrameStrict
	for _, m := range v.fc.Modifies {
		if id, ok := m.(CIdent); ok {
			if _, isGhost := v.e.ct.GhostVars[id.Name]; isGhost {
				continue
			}
		}
		real = true
	}
	if !real {
		return
	}
	fresh := Ge(ref, v.entry.next)
	if fresh.IsTrue() {
		return
	}
	allowed := []*Term{fresh, Eq(ref, IntLit(0))}
	env := v.entryEnv(st)
	env.old = v.entry
	for _, m := range v.fc.Modifies {
		loc, ok := v.evalLocOld(st, env, m)
		if !ok || loc.whole || loc.size != 1 {
			continue
		}
		if _, isMap := loc.typ.Underlying().(*types.Map); !isMap {
			continue
		}
		allowed = append(allowed, Eq(ref, Select(Select(v.entry.memOf(KI), loc.blk), loc.off)))
	}
	v.oblige(st, "frame", "map write "+what, Or(allowed...), p, nil)
}

func (fc *FuncContract) frameChecked() bool {
	return fc != nil && !fc.NoBody && !fc.ModAll && (fc.Pure || len(fc.Modifies) > 0 || fc.FrameStrict)
}

// ---------------------------------------------------------------------------
// loops

func (v *Verifier) loopClauses(li *LoopInfo) []*Clause {
	if v.fc == nil {
		return nil
	}
	return v.fc.Loops[li.Ordinal]
}

func (v *Verifier) loopEnv(st *State) *Env {
	env := v.entryEnv(st)
	env.fnFrame = st.frames[0]
	env.old = v.entry
	return env
}

// rangeIndexFact: go/ssa lowers "for i := range slice" to a counter cell that starts at -1 and is
// incremented and compared with the length at the loop head; -1 <= counter < max(len,0)... holds there.
func (v *Verifier) rangeIndexFact(st *State, li *LoopInfo) *Term {
	h := li.Header
	if h.Comment != "rangeindex.loop" || len(h.Instrs) < 4 {
		return nil
	}
	ld, ok := h.Instrs[0].(*ssa.UnOp)
	if !ok {
		return nil
	}
	a, ok := ld.X.(*ssa.Alloc)
	if !ok || a.Comment != "rangeindex" {
		return nil
	}
	var cmp *ssa.BinOp
	for _, ins := range h.Instrs {
		if b, ok := ins.(*ssa.BinOp); ok && b.Op == token.LSS {
			cmp = b
		}
	}
	if cmp == nil {
		return nil
	}
	fr := st.top()
	cell, ok := fr.cells[a]
	if !ok {
		return nil
	}
	lenV, ok := fr.regs[cmp.Y]
	if !ok {
		if c, isConst := cmp.Y.(*ssa.Const); isConst {
			lenV = v.constValue(st, c)
		} else {
			return nil
		}
	}
	idx := cell.L[0]
	return And(Ge(idx, IntLit(-1)), Or(Lt(idx, lenV.L[0]), Eq(idx, IntLit(-1))))
}

func (v *Verifier) assertLoopInv(st *State, li *LoopInfo, phase string) {
	if f := v.rangeIndexFact(st, li); f != nil {
		v.oblige(st, "inv", fmt.Sprintf("loop#%d:range-index@%s", li.Ordinal, phase), f, li.Header.Instrs[0].Pos(), nil)
	}
	env := v.loopEnv(st)
	for i, cl := range v.loopClauses(li) {
		t := v.evalBoolIn(st, env, cl)
		v.oblige(st, "inv", fmt.Sprintf("loop#%d:%s@%s", li.Ordinal, clauseLabel(cl, i), phase), t, li.Header.Instrs[0].Pos(), cl)
	}
}

func (v *Verifier) assumeLoopInv(st *State, li *LoopInfo) {
	if f := v.rangeIndexFact(st, li); f != nil {
		st.assume(f)
	}
	env := v.loopEnv(st)
	for _, cl := range v.loopClauses(li) {
		st.assumeTagged(v.evalBoolIn(st, env, cl), cl.Label)
	}
}

type loopEffects struct {
	unknown   bool
	freeVars  []*ssa.FreeVar
	allocs    []*ssa.Alloc
	lockCalls []*ssa.Call // Lock / Wait calls: guarded fields of the owner change
	appends   []ssa.Value // first arguments of append calls: their backing array may be written
	ghosts    []string    // ghost variables modified by contracted callees
}

func rootOfAddr(v ssa.Value) ssa.Value {
	for {
		switch x := v.(type) {
		case *ssa.FieldAddr:
			v = x.X
		case *ssa.IndexAddr:
			if _, ok := x.X.Type().Underlying().(*types.Pointer); !ok {
				return v
			}
			v = x.X
		default:
			return v
		}
	}
}

// atGhostTargets: ghost variables assigned by "ghost x = e" lines of the at-blocks attached to this call.
func (v *Verifier) atGhostTargets(c *ssa.Call) []string {
	if v.fc == nil {
		return nil
	}
	var out []string
	for _, ab := range v.fc.Ats {
		if (len(ab.Ghosts) == 0 && len(ab.GhostsAfter) == 0) || ab.Callee == "backedge" || ab.Callee == "return" || !v.atBlockIs(ab, c) {
			continue
		}
		for _, ga := range ab.Ghosts {
			out = append(out, ghostRoot(ga.LHS))
		}
		for _, ga := range ab.GhostsAfter {
			out = append(out, ghostRoot(ga.LHS))
		}
	}
	return out
}

// atBlockIs: is c the call site the at-block names (n-th call, in source order, matching its callee pattern)?
func (v *Verifier) atBlockIs(ab *AtBlock, c *ssa.Call) bool {
	name, _ := v.callOrdinal(c)
	if !atMatches(name, ab.Callee) {
		return false
	}
	n := 0
	for _, oc := range v.allCalls {
		if atMatches(v.callNames[oc], ab.Callee) {
			n++
			if oc == c {
				return n == ab.Ordinal
			}
		}
	}
	return false
}

func ghostRoot(e CExpr) string {
	for {
		switch x := e.(type) {
		case CIdent:
			return x.Name
		case CIndex:
			e = x.X
		case CSel:
			e = x.X
		default:
			return ""
		}
	}
}

func (v *Verifier) loopEffectsOf(li *LoopInfo) *loopEffects {
	eff := &loopEffects{}
	if v.fc != nil {
		for _, ab := range v.fc.Ats {
			if ab.Callee == "backedge" && ab.Ordinal == li.Ordinal {
				for _, ga := range ab.Ghosts {
					eff.ghosts = append(eff.ghosts, ghostRoot(ga.LHS))
				}
			}
		}
	}
	seenFV := map[*ssa.FreeVar]bool{}
	seenA := map[*ssa.Alloc]bool{}
	fi := v.e.info(v.fn)
	for b := range li.Blocks {
		for _, ins := range b.Instrs {
			switch ins := ins.(type) {
			case *ssa.Store:
				switch r := rootOfAddr(ins.Addr).(type) {
				case *ssa.Alloc:
					if !fi.cellable[r] && !seenA[r] {
						seenA[r] = true
						eff.allocs = append(eff.allocs, r)
					}
				case *ssa.FreeVar:
					if !seenFV[r] {
						seenFV[r] = true
						eff.freeVars = append(eff.freeVars, r)
					}
				default:
					eff.unknown = true
				}
			case *ssa.MapUpdate, *ssa.Defer, *ssa.Go, *ssa.Send:
				eff.unknown = true
			case *ssa.Select:
				for _, s := range ins.States {
					if s.Dir == types.SendOnly {
						eff.unknown = true
					}
				}
			case *ssa.Call:
				if fn := ins.Call.StaticCallee(); fn != nil {
					switch funcKey(fn) {
					case "sync.(*Mutex).Lock", "sync.(*RWMutex).Lock", "sync.(*RWMutex).RLock", "sync.(*Cond).Wait":
						eff.lockCalls = append(eff.lockCalls, ins)
						continue
					case "sync.(*Mutex).Unlock", "sync.(*RWMutex).Unlock", "sync.(*RWMutex).RUnlock", "sync.(*Cond).Broadcast", "sync.(*Cond).Signal":
						continue
					}
				}
				if b, ok := ins.Call.Value.(*ssa.Builtin); ok && b.Name() == "append" {
					// append writes the backing array of its first argument (or a fresh one)
					if ld, ok := ins.Call.Args[0].(*ssa.UnOp); ok && ld.Op == token.MUL {
						if _, isAlloc := ld.X.(*ssa.Alloc); isAlloc {
							eff.appends = append(eff.appends, ins.Call.Args[0])
							continue
						}
					}
				}
				eff.ghosts = append(eff.ghosts, v.atGhostTargets(ins)...)
				if gs, ok := v.ghostOnlyModifies(&ins.Call); ok {
					eff.ghosts = append(eff.ghosts, gs...)
					continue
				}
				if !v.callIsPure(&ins.Call) {
					// a call through a function value modifies only what its arguments reach (see dispatchCall)
					if !ins.Call.IsInvoke() && ins.Call.StaticCallee() == nil {
						// a local variable that only ever holds one closure literal of this function
						if ld, ok := ins.Call.Value.(*ssa.UnOp); ok && ld.Op == token.MUL {
							if a, ok := ld.X.(*ssa.Alloc); ok {
								var only *ssa.Function
								n := 0
								if refs := a.Referrers(); refs != nil {
									for _, r := range *refs {
										if s, ok := r.(*ssa.Store); ok && s.Addr == a {
											n++
											if mc, ok := s.Val.(*ssa.MakeClosure); ok {
												only, _ = mc.Fn.(*ssa.Function)
											}
										}
									}
								}
								if n == 1 && only != nil && v.bodyIsPure(only, 0) {
									continue
								}
							}
						}
						if _, isBuiltin := ins.Call.Value.(*ssa.Builtin); !isBuiltin {
							ok := true
							for _, a := range ins.Call.Args {
								switch a.Type().Underlying().(type) {
								case *types.Pointer, *types.Slice, *types.Map, *types.Interface:
									if al, isAlloc := rootOfAddr(a).(*ssa.Alloc); isAlloc && !fi.cellable[al] {
										if !seenA[al] {
											seenA[al] = true
											eff.allocs = append(eff.allocs, al)
										}
									} else {
										ok = false
									}
								}
							}
							if ok {
								continue
							}
						}
					}
					eff.unknown = true
					if v.e.opts.Verbose {
						fmt.Fprintf(os.Stderr, "loop #%d of %s: unknown effects because of call %s\n", li.Ordinal, v.key, callName(&ins.Call))
					}
				}
			}
		}
	}
	sort.Slice(eff.freeVars, func(i, j int) bool { return eff.freeVars[i].Name() < eff.freeVars[j].Name() })
	sort.Slice(eff.allocs, func(i, j int) bool { return eff.allocs[i].Pos() < eff.allocs[j].Pos() })
	return eff
}

func (v *Verifier) callIsPure(c *ssa.CallCommon) bool {
	if b, ok := c.Value.(*ssa.Builtin); ok {
		switch b.Name() {
		case "len", "cap", "min", "max", "ssa:wrapnilchk", "ssa:deferstack":
			return true
		}
		return false
	}
	// a contract without modifies clause promises to leave existing memory alone
	frameOnly := func(fc *FuncContract) bool {
		return fc != nil && !fc.Inline && !fc.ModAll && len(fc.Modifies) == 0
	}
	if c.IsInvoke() {
		fc := v.e.ct.Funcs[v.ifaceKey(c.Method)]
		return fc != nil && (fc.Pure || frameOnly(fc))
	}
	if fn := c.StaticCallee(); fn != nil {
		key := funcKey(fn)
		fc := v.e.ct.Funcs[key]
		if fc == nil {
			for _, re := range v.e.ct.InlineRe {
				if re.MatchString(key) {
					fc = &FuncContract{Key: key, Inline: true, Loops: map[int][]*Clause{}}
					v.e.ct.Funcs[key] = fc
					break
				}
			}
		}
		if fc != nil && (fc.Pure || frameOnly(fc)) {
			return true
		}
		if fc != nil && fc.Inline {
			return v.bodyIsPure(fn, 0)
		}
	}
	return false
}

// bodyIsPure: an inlined function whose body writes only its own locals.
func (v *Verifier) bodyIsPure(fn *ssa.Function, depth int) bool {
	if r, ok := v.e.pureBody[fn]; ok {
		return r
	}
	body := fn
	if len(body.Blocks) == 0 && fn.Origin() != nil {
		body = fn.Origin()
	}
	if len(body.Blocks) == 0 || depth > 4 {
		return false
	}
	v.e.pureBody[fn] = false // recursion guard
	pure := true
	for _, b := range body.Blocks {
		for _, ins := range b.Instrs {
			switch ins := ins.(type) {
			case *ssa.Store:
				if _, ok := rootOfAddr(ins.Addr).(*ssa.Alloc); !ok {
					pure = false
				}
			case *ssa.MapUpdate, *ssa.Go, *ssa.Defer, *ssa.Send, *ssa.Select:
				pure = false
			case *ssa.Call:
				if !v.callIsPure(&ins.Call) {
					pure = false
				}
			}
		}
	}
	v.e.pureBody[fn] = pure
	return pure
}

func (v *Verifier) havocLoop(st *State, li *LoopInfo) {
	fr := st.top()
	for _, a := range li.ModCells {
		if _, ok := fr.cells[a]; !ok {
			continue // not yet allocated on this path; will be zeroed at its Alloc
		}
		name := a.Comment
		if name == "" {
			name = a.Name()
		}
		fr.cells[a] = st.freshValue("lp_"+name, derefType(a.Type()))
	}
	eff := v.loopEffectsOf(li)
	if len(eff.lockCalls) > 0 && len(st.held) == 0 {
		// lock not held at the loop head: the next acquisition is relative to the loop-head state
		st.lastRel = nil
		st.loopBasePending = true
	}
	// addresses that the loop body lets escape are no longer private from the first iteration on
	for b := range li.Blocks {
		for _, ins := range b.Instrs {
			for _, op := range ins.Operands(nil) {
				a, ok := (*op).(*ssa.Alloc)
				if !ok || fr.info.cellable[a] {
					continue
				}
				switch x := ins.(type) {
				case *ssa.Store:
					if x.Addr == a && x.Val != a {
						continue
					}
				case *ssa.UnOp:
					if x.Op == token.MUL {
						continue
					}
				case *ssa.FieldAddr, *ssa.IndexAddr, *ssa.DebugRef:
					// interior addresses: conservatively treated as escaping below unless only loaded/stored
				}
				if p, ok := fr.regs[a]; ok {
					st.escape(p)
				}
			}
		}
	}
	if eff.unknown {
		st.havocAll()
	} else {
		st.bumpNext()
		for _, fv := range eff.freeVars {
			p := fr.regs[fv]
			st.storeAt(p.L[0], p.L[1], st.freshValue("lp_"+fv.Name(), derefType(fv.Type())))
		}
		for _, a := range eff.allocs {
			if p, ok := fr.regs[a]; ok && p.cell == nil {
				st.storeAt(p.L[0], p.L[1], st.freshValue("lp_"+a.Comment, derefType(a.Type())))
			}
		}
		for _, ap := range eff.appends {
			if ld, ok := ap.(*ssa.UnOp); ok {
				if a, isAlloc := ld.X.(*ssa.Alloc); isAlloc {
					if _, exists := fr.regs[a]; !exists {
						continue // declared inside the loop: allocated afresh in each iteration
					}
				}
			}
			if sv, ok := v.tryEval(st, ap); ok && sv.cell == nil && len(sv.L) == 4 {
				// contents are havocked after the invariant has told us what the (new) header is
				st.pendingHavoc = append(st.pendingHavoc, sv.L[0])
			} else {
				st.havocAll()
			}
		}
		// ghost variables written by the contracts of the calls in the loop body
		seenG := map[string]bool{}
		for _, g := range eff.ghosts {
			if seenG[g] {
				continue
			}
			seenG[g] = true
			if cur, ok := st.glocals[g]; ok {
				st.glocals[g] = st.freshValue("lp_"+g, cur.T)
				continue
			}
			if gv, ok := v.e.ct.GhostVars[g]; ok {
				if t, err := v.e.resolveType(gv.Type, gv.PkgPath); err == nil {
					st.storeAt(v.e.ghostBlock(g), IntLit(0), st.freshValue("lp_"+g, t))
				} else {
					st.havocAll()
				}
			}
		}
		for _, lc := range eff.lockCalls {
			v.havocForLockCall(st, lc)
		}
		if len(eff.lockCalls) > 0 && len(st.held) == 0 {
			// lock not held at the loop head: what the next acquisition sees is relative to the
			// last-seen values described by the loop invariant
			st.lastRel = nil
			st.loopBasePending = true
		}
		if len(eff.lockCalls) > 0 && len(st.held) > 0 {
			// a loop that waits on a condition variable re-acquires the lock each iteration
			st.acq = st.snapshot()
			for k := range st.held {
				if st.clean == nil {
					st.clean = map[string]bool{}
				}
				st.clean[k] = true
			}
		}
	}
	// iterators advanced inside the loop lose their visited set
	for b := range li.Blocks {
		for _, ins := range b.Instrs {
			if nx, ok := ins.(*ssa.Next); ok {
				if rv, ok := fr.regs[nx.Iter]; ok && rv.it != nil {
					ni := *rv.it
					if ni.visited != nil {
						ni.visited = v.e.sy.Fresh("visited", ni.visited.sort)
					}
					rv.it = &ni
					fr.regs[nx.Iter] = rv
				}
			}
		}
	}
}

// ---------------------------------------------------------------------------
// postconditions

func (v *Verifier) checkPost(st *State, r *ssa.Return, res Value) {
	if v.fc == nil {
		return
	}
	env := v.entryEnv(st)
	env.fnFrame = st.frames[0]
	env.old = v.entry
	env.atReturn = true
	v.bindResults(env, v.fn.Signature, v.fc, res)
	v.checkReturnAts(st, env, r)
	for _, ga := range v.fc.GhostAssigns {
		v.ghostAssign(st, env, ga)
	}
	for i, cl := range v.fc.Ensures {
		if strings.HasPrefix(cl.Label, "def-") {
			continue // definitional clause: it introduces a specification function as "what this function returns"
		}
		t := v.evalBoolIn(st, env, cl)
		v.oblige(st, "post", clauseLabel(cl, i), t, r.Pos(), cl)
	}
}

// checkReturnAts: "at return #n" blocks belong to the n-th return statement (in source order). Their
// assertions may name locals (which exported postconditions cannot); their ghost assignments record
// what the function saw on that path, so that a postcondition over the ghost is checked per path.
func (v *Verifier) checkReturnAts(st *State, env *Env, r *ssa.Return) {
	has := false
	for _, ab := range v.fc.Ats {
		if ab.Callee == "return" {
			has = true
		}
	}
	if !has {
		return
	}
	var rets []*ssa.Return
	for _, b := range v.fn.Blocks {
		if b == v.fn.Recover {
			continue // the synthetic return of the recover block
		}
		for _, ins := range b.Instrs {
			if x, ok := ins.(*ssa.Return); ok {
				rets = append(rets, x)
			}
		}
	}
	// the implicit return at the end of a function without results has no position: it is the last one
	rpos := func(r *ssa.Return) token.Pos {
		if !r.Pos().IsValid() {
			return token.Pos(1 << 40)
		}
		return r.Pos()
	}
	sort.SliceStable(rets, func(i, j int) bool { return rpos(rets[i]) < rpos(rets[j]) })
	ord := 0
	for i, x := range rets {
		if x == r {
			ord = i + 1
		}
	}
	for _, ab := range v.fc.Ats {
		if ab.Callee != "return" || ab.Ordinal != ord {
			continue
		}
		ab.seen = true
		for i, cl := range ab.Asserts {
			t := v.evalBoolIn(st, env, cl)
			v.oblige(st, "assert", fmt.Sprintf("at return#%d:%s", ab.Ordinal, clauseLabel(cl, i)), t, r.Pos(), cl)
			st.assumeTagged(t, cl.Label)
		}
		for _, ga := range ab.Ghosts {
			v.ghostAssign(st, env, ga)
		}
	}
}

// ghostAssign executes "ghost lhs = rhs" at function exit.
func (v *Verifier) ghostAssign(st *State, env *Env, ga GhostAssign) {
	defer func() {
		if r := recover(); r != nil {
			if ce, ok := r.(cevalError); ok {
				v.fail("ghost assignment %q: %s", ga.Src, ce.msg)
			}
			panic(r)
		}
	}()
	rhs := env.eval(st, ga.RHS)
	if id, ok := ga.LHS.(CIdent); ok && v.fc != nil {
		if _, isLocal := v.fc.GhostLocals[id.Name]; isLocal {
			cur := st.glocals[id.Name]
			if len(rhs.L) != len(cur.L) {
				v.fail("ghost assignment %q: shape mismatch", ga.Src)
			}
			rhs.T = cur.T
			st.glocals[id.Name] = rhs
			return
		}
	}
	// map element
	if ix, ok := ga.LHS.(CIndex); ok {
		m := env.eval(st, ix.X)
		if mt, ok := m.T.Underlying().(*types.Map); ok {
			key := env.eval(st, ix.I)
			v.mapSet(st, mt, m.L[0], key, rhs)
			return
		}
	}
	loc := env.loc(st, ga.LHS)
	if len(rhs.L) != loc.size {
		if rhs.T == nilType {
			rhs = v.e.zeroValue(loc.typ)
		} else {
			v.fail("ghost assignment %q: shape mismatch", ga.Src)
		}
	}
	rhs.T = loc.typ
	if loc.ghostKey != "" {
		v.ghostStore(st, loc.ghostKey, loc.ghostFld, loc.blk, loc.off, rhs)
		return
	}
	st.storeAt(loc.blk, loc.off, rhs)
}

// havocForLockCall: a loop that (re)acquires a lock sees new values of the guarded fields each iteration.
func (v *Verifier) havocForLockCall(st *State, c *ssa.Call) {
	arg := c.Call.Args[0]
	var fa *ssa.FieldAddr
	switch a := arg.(type) {
	case *ssa.FieldAddr:
		fa = a
	case *ssa.UnOp: // cond: load of X.c
		if f, ok := a.X.(*ssa.FieldAddr); ok {
			fa = f
		}
	}
	if fa == nil {
		st.havocAll()
		return
	}
	named, ok := derefType(fa.X.Type()).(*types.Named)
	if !ok {
		st.havocAll()
		return
	}
	tc := v.e.ct.Types[typeKey(named)]
	if tc == nil {
		return
	}
	ownerExpr := fa.X
	owner, ok := v.tryEval(st, ownerExpr)
	if !ok || owner.cell != nil {
		st.havocAll()
		return
	}
	stt := named.Underlying().(*types.Struct)
	var mus []string
	for mu := range tc.GuardedBy {
		mus = append(mus, mu)
	}
	sort.Strings(mus)
	for _, mu := range mus {
		prev := st.snapshot()
		v.havocGuarded(st, owner, named, tc, mu)
		// if the lock is held at the loop head the monitor invariant holds there as well
		for i := 0; i < stt.NumFields(); i++ {
			if stt.Field(i).Name() == mu {
				muv := Value{L: []*Term{owner.L[0], Add(owner.L[1], IntLit(int64(v.e.lay.FieldOff(stt, i))))}}
				held := st.held[lockKey(muv)] != nil
				if !held {
					for _, h := range st.held {
						// same lock through an equal pointer term: decided syntactically on the offset, semantically elsewhere
						if h.off.String() == muv.L[1].String() || len(st.held) == 1 {
							held = true
						}
					}
				}
				if held {
					v.assumeTypeInv(st, owner, named, tc)
					v.assumeRely(st, owner, tc, prev)
				}
			}
		}
	}
}

// tryEval evaluates simple address expressions (free variables, parameters, loads of those) without side effects.
func (v *Verifier) tryEval(st *State, x ssa.Value) (Value, bool) {
	fr := st.top()
	if val, ok := fr.regs[x]; ok {
		return val, true
	}
	switch x := x.(type) {
	case *ssa.UnOp:
		if x.Op == token.MUL {
			p, ok := v.tryEval(st, x.X)
			if !ok {
				return Value{}, false
			}
			if p.cell != nil {
				c := v.cellFrame(st, p.cell.alloc).cells[p.cell.alloc]
				n := v.e.lay.Size(x.Type())
				return Value{T: x.Type(), L: c.L[p.cell.off : p.cell.off+n]}, true
			}
			return st.loadAt(p.L[0], p.L[1], x.Type()), true
		}
	case *ssa.Global, *ssa.Const, *ssa.Function:
		return v.eval(st, x), true
	}
	return Value{}, false
}

// assumeRely: what other threads may have done to the guarded state since prev.
func (v *Verifier) assumeRely(st *State, owner Value, tc *TypeContract, prev *State) {
	if prev == nil {
		return
	}
	env := &Env{v: v, vars: map[string]Value{"self": owner}, pkgPath: tc.PkgPath, old: prev}
	for _, cl := range tc.Rely {
		st.assumeTagged(v.evalBoolIn(st, env, cl), cl.Label)
	}
}

// assertGuarantee: this thread's own critical section respects the rely of the others.
func (v *Verifier) assertGuarantee(st *State, owner Value, named *types.Named, tc *TypeContract, when string, p token.Pos) {
	if st.acq == nil {
		return
	}
	env := &Env{v: v, vars: map[string]Value{"self": owner}, pkgPath: tc.PkgPath, old: st.acq}
	for i, cl := range tc.Rely {
		t := v.evalBoolIn(st, env, cl)
		v.oblige(st, "inv", fmt.Sprintf("%s:guarantee-%s@%s", named.Obj().Name(), clauseLabel(cl, i), when), t, p, cl)
	}
}

// framedInv: the critical section wrote nothing that the owner's invariant or rely can read
// (only blocks allocated by this invocation); the clauses hold by framing.
func (v *Verifier) framedInv(st *State, named *types.Named, tc *TypeContract, when string, p token.Pos) {
	for i, cl := range tc.Invariant {
		name := fmt.Sprintf("%s#inv[%s:%s@%s]", v.key, named.Obj().Name(), clauseLabel(cl, i), when)
		ob := &Obligation{Name: name, Kind: "inv", Func: v.key, Pos: v.pos(p), Goal: TTrue, Clause: cl, Static: true, StaticOK: true, Note: "by framing (read-only critical section)", Path: append([]int(nil), st.path...)}
		if v.fc != nil {
			ob.Props = v.fc.Props
		}
		v.obs = append(v.obs, ob)
	}
}

// coerceTo re-types a value computed over opaque type parameters to the instantiated type: zero
// values of an opaque parameter become zero values of the actual kind.
func (v *Verifier) coerceTo(val Value, t types.Type) Value {
	lay := v.e.lay.Of(t)
	if len(lay) != len(val.L) {
		return val
	}
	out := Value{T: t, L: make([]*Term, len(val.L)), clo: val.clo}
	for i, sl := range lay {
		l := val.L[i]
		if l.sort != sl.K.Sort() {
			if iv, ok := l.IsInt(); ok && iv.Sign() == 0 && sl.Role != ROpaq {
				l = v.e.zeroLeaf(sl)
			}
			// otherwise the leaf keeps the sort of the actual type argument (the expected type is
			// itself an opaque type parameter of an enclosing generic body)
		}
		out.L[i] = l
	}
	return out
}

// ghostOnlyModifies: the callee's contract modifies nothing but ghost variables.
func (v *Verifier) ghostOnlyModifies(c *ssa.CallCommon) ([]string, bool) {
	var fc *FuncContract
	if c.IsInvoke() {
		fc = v.e.ct.Funcs[v.ifaceKey(c.Method)]
	} else if fn := c.StaticCallee(); fn != nil {
		fc = v.e.ct.Funcs[funcKey(fn)]
	}
	if fc == nil || fc.Inline || fc.ModAll || len(fc.Modifies) == 0 {
		return nil, false
	}
	var out []string
	for _, m := range fc.Modifies {
		id, ok := m.(CIdent)
		if !ok {
			return nil, false
		}
		if _, isGhost := v.e.ct.GhostVars[id.Name]; !isGhost {
			return nil, false
		}
		out = append(out, id.Name)
	}
	return out, true
}

// uniqueClosureOf: fv is a captured variable of function type; if the variable it stands for is
// assigned exactly once in the enclosing function, and that with a closure literal, return the literal.
func uniqueClosureOf(fv *ssa.FreeVar) *ssa.Function {
	fn := fv.Parent()
	if fn == nil || fn.Parent() == nil {
		return nil
	}
	idx := -1
	for i, x := range fn.FreeVars {
		if x == fv {
			idx = i
		}
	}
	if idx < 0 {
		return nil
	}
	parent := fn.Parent()
	var found *ssa.Function
	for _, b := range parent.Blocks {
		for _, ins := range b.Instrs {
			mc, ok := ins.(*ssa.MakeClosure)
			if !ok || mc.Fn != ssa.Value(fn) || idx >= len(mc.Bindings) {
				continue
			}
			var lit *ssa.Function
			switch src := mc.Bindings[idx].(type) {
			case *ssa.Alloc:
				n := 0
				if refs := src.Referrers(); refs != nil {
					for _, r := range *refs {
						if st, ok := r.(*ssa.Store); ok && st.Addr == ssa.Value(src) {
							n++
							if m2, ok := st.Val.(*ssa.MakeClosure); ok {
								lit, _ = m2.Fn.(*ssa.Function)
							}
						}
					}
				}
				if n != 1 {
					lit = nil
				}
			case *ssa.FreeVar:
				lit = uniqueClosureOf(src) // captured one level further up
			}
			if lit == nil || (found != nil && found != lit) {
				return nil
			}
			found = lit
		}
	}
	return found
}
