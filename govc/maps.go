package main

// Map model: a map value is a reference; per map type there are arrays
// ref -> (key -> present), ref -> (key -> value leaf i), ref -> len.

import (
	"fmt"
	"go/types"
	"strings"

	"golang.org/x/tools/go/ssa"
)

type mapModel struct {
	name    string
	keySort Sort
	keyLay  []Slot
	valLay  []Slot
	ctor    string
}

func (e *Engine) mapModelOf(mt *types.Map) *mapModel {
	name := sanitize(types.TypeString(mt, func(p *types.Package) string { return p.Name() }))
	kl := e.lay.Of(mt.Key())
	m := &mapModel{name: name, keyLay: kl, valLay: e.lay.Of(mt.Elem())}
	if len(kl) == 1 {
		m.keySort = kl[0].K.Sort()
	} else {
		sig := ""
		for _, s := range kl {
			sig += s.K.String()
		}
		m.keySort = Sort("Key_" + sig)
		m.ctor = "mk_" + sig
		e.sy.declareTuple(sig, kl)
	}
	return m
}

func (sy *Symbols) declareTuple(sig string, lay []Slot) {
	if sy.datatypes == nil {
		sy.datatypes = map[string]string{}
	}
	name := "Key_" + sig
	if _, ok := sy.datatypes[name]; ok {
		return
	}
	var b strings.Builder
	fmt.Fprintf(&b, "(declare-datatypes ((%s 0)) (((mk_%s", name, sig)
	for i, s := range lay {
		fmt.Fprintf(&b, " (k_%s_%d %s)", sig, i, s.K.Sort())
	}
	b.WriteString("))))")
	sy.datatypes[name] = b.String()
}

func (m *mapModel) key(k Value) *Term {
	if len(m.keyLay) == 1 {
		return k.L[0]
	}
	return &Term{op: m.ctor, args: k.L, sort: m.keySort}
}

func (m *mapModel) keyLeaf(k *Term, i int) *Term {
	if len(m.keyLay) == 1 {
		return k
	}
	sig := strings.TrimPrefix(m.ctor, "mk_")
	return &Term{op: fmt.Sprintf("k_%s_%d", sig, i), args: []*Term{k}, sort: m.keyLay[i].K.Sort()}
}

func (s *State) mapArr(name string, sort Sort) *Term {
	if t, ok := s.maps[name]; ok {
		return t
	}
	t := s.e.sy.Named(fmt.Sprintf("%s@%d", name, s.epoch), sort)
	s.maps[name] = t
	return t
}

func (m *mapModel) domName() string      { return "mapDom:" + m.name }
func (m *mapModel) lenName() string      { return "mapLen:" + m.name }
func (m *mapModel) valName(i int) string { return fmt.Sprintf("mapVal:%s:%d", m.name, i) }
func (m *mapModel) domSort() Sort        { return ArraySort(SInt, ArraySort(m.keySort, SBool)) }
func (m *mapModel) lenSort() Sort        { return ArraySort(SInt, SInt) }
func (m *mapModel) valSort(i int) Sort {
	return ArraySort(SInt, ArraySort(m.keySort, m.valLay[i].K.Sort()))
}

func (v *Verifier) mapDom(st *State, mt *types.Map, ref *Term) *Term {
	m := v.e.mapModelOf(mt)
	return Select(st.mapArr(m.domName(), m.domSort()), ref)
}

func (v *Verifier) mapLen(st *State, mt *types.Map, ref *Term) *Term {
	m := v.e.mapModelOf(mt)
	return Select(st.mapArr(m.lenName(), m.lenSort()), ref)
}

func (v *Verifier) mapInitEmpty(st *State, mt *types.Map, ref *Term) {
	if !st.local[ref.String()] {
		st.dirty()
	}
	m := v.e.mapModelOf(mt)
	dom := st.mapArr(m.domName(), m.domSort())
	st.maps[m.domName()] = st.define("dom", Store(dom, ref, ConstArray(ArraySort(m.keySort, SBool), TFalse)))
	ln := st.mapArr(m.lenName(), m.lenSort())
	st.maps[m.lenName()] = st.define("mlen", Store(ln, ref, IntLit(0)))
}

func (v *Verifier) mapHavoc(st *State, mt *types.Map, ref *Term) {
	if !st.local[ref.String()] {
		st.dirty()
	}
	m := v.e.mapModelOf(mt)
	dom := st.mapArr(m.domName(), m.domSort())
	st.maps[m.domName()] = st.define("dom", Store(dom, ref, v.e.sy.Fresh("hdom", ArraySort(m.keySort, SBool))))
	ln := st.mapArr(m.lenName(), m.lenSort())
	nl := v.e.sy.Fresh("hlen", SInt)
	st.assume(Ge(nl, IntLit(0)))
	st.maps[m.lenName()] = st.define("mlen", Store(ln, ref, nl))
	for i := range m.valLay {
		va := st.mapArr(m.valName(i), m.valSort(i))
		st.maps[m.valName(i)] = st.define("mval", Store(va, ref, v.e.sy.Fresh("hval", ArraySort(m.keySort, m.valLay[i].K.Sort()))))
	}
}

func (v *Verifier) mapGet(st *State, mt *types.Map, ref *Term, key Value, raw bool) (Value, *Term) {
	m := v.e.mapModelOf(mt)
	k := m.key(key)
	present := Select(Select(st.mapArr(m.domName(), m.domSort()), ref), k)
	val := Value{T: mt.Elem(), L: make([]*Term, len(m.valLay))}
	zero := v.e.zeroValue(mt.Elem())
	for i := range m.valLay {
		leaf := Select(Select(st.mapArr(m.valName(i), m.valSort(i)), ref), k)
		val.L[i] = leaf
		_ = zero
	}
	return val, present
}

func (v *Verifier) doLookup(st *State, l *ssa.Lookup) {
	x := v.eval(st, l.X)
	idx := v.eval(st, l.Index)
	mt, ok := l.X.Type().Underlying().(*types.Map)
	if !ok {
		// string index
		n := v.e.strLen(x.L[0])
		i := idx.L[0]
		v.oblige(st, "index", describe(l), And(Ge(i, IntLit(0)), Lt(i, n)), l.Pos(), nil)
		st.assume(And(Ge(i, IntLit(0)), Lt(i, n)))
		r := Value{T: l.Type(), L: []*Term{v.e.sy.App("str_at", SInt, x.L[0], i)}}
		st.assumeWF(r)
		v.setReg(st, l, r)
		return
	}
	val, present := v.mapGet(st, mt, x.L[0], idx, false)
	// a nil map reads as empty
	present = st.define("present", And(Neq(x.L[0], IntLit(0)), present))
	zero := v.e.zeroValue(mt.Elem())
	out := Value{T: l.Type()}
	for i := range val.L {
		out.L = append(out.L, Ite(present, val.L[i], zero.L[i]))
	}
	// stored values are well-formed
	pv := Value{T: mt.Elem(), L: out.L}
	st.assumeWF(pv)
	if l.CommaOk {
		out.L = append(out.L, present)
	} else {
		v.annotate(st, &out)
	}
	v.setReg(st, l, out)
}

func (v *Verifier) doMapUpdate(st *State, mu *ssa.MapUpdate) {
	x := v.eval(st, mu.Map)
	key := v.eval(st, mu.Key)
	val := v.eval(st, mu.Value)
	mt := mu.Map.Type().Underlying().(*types.Map)
	v.escapeValue(st, key)
	v.escapeValue(st, val)
	v.oblige(st, "mapwrite", "assignment to "+describe(mu.Map), Neq(x.L[0], IntLit(0)), mu.Pos(), nil)
	st.assume(Neq(x.L[0], IntLit(0)))
	v.checkMapFrame(st, x.L[0], mt, mu.Pos(), describe(mu.Map))
	v.mapSet(st, mt, x.L[0], key, val)
}

func (v *Verifier) mapSet(st *State, mt *types.Map, ref *Term, key, val Value) {
	if !st.local[ref.String()] {
		st.dirty()
	}
	m := v.e.mapModelOf(mt)
	k := m.key(key)
	domA := st.mapArr(m.domName(), m.domSort())
	dom := Select(domA, ref)
	was := Select(dom, k)
	lenA := st.mapArr(m.lenName(), m.lenSort())
	oldLen := Select(lenA, ref)
	st.maps[m.lenName()] = st.define("mlen", Store(lenA, ref, Ite(was, oldLen, Add(oldLen, IntLit(1)))))
	st.maps[m.domName()] = st.define("dom", Store(domA, ref, Store(dom, k, TTrue)))
	for i := range m.valLay {
		va := st.mapArr(m.valName(i), m.valSort(i))
		st.maps[m.valName(i)] = st.define("mval", Store(va, ref, Store(Select(va, ref), k, val.L[i])))
	}
	if val.clo != nil {
		st.clos[val.L[0].String()] = val.clo
	}
}

func (v *Verifier) mapDelete(st *State, mt *types.Map, ref *Term, key Value) {
	if !st.local[ref.String()] {
		st.dirty()
	}
	m := v.e.mapModelOf(mt)
	k := m.key(key)
	domA := st.mapArr(m.domName(), m.domSort())
	dom := Select(domA, ref)
	was := Select(dom, k)
	lenA := st.mapArr(m.lenName(), m.lenSort())
	oldLen := Select(lenA, ref)
	// delete on a nil map is a no-op; the model writes index 0 which nothing reads as a live map
	st.maps[m.lenName()] = st.define("mlen", Store(lenA, ref, Ite(was, Sub(oldLen, IntLit(1)), oldLen)))
	st.maps[m.domName()] = st.define("dom", Store(domA, ref, Store(dom, k, TFalse)))
}

// ---------------------------------------------------------------------------
// iteration

func (v *Verifier) doRange(st *State, r *ssa.Range) {
	x := v.eval(st, r.X)
	it := &iterState{mapVal: x}
	if mt, ok := r.X.Type().Underlying().(*types.Map); ok {
		it.mapType = mt
		m := v.e.mapModelOf(mt)
		it.visited = ConstArray(ArraySort(m.keySort, SBool), TFalse)
	} else {
		it.isStr = true
	}
	v.setReg(st, r, Value{T: r.Type(), L: []*Term{IntLit(0)}, it: it})
}

func (v *Verifier) doNext(st *State, n *ssa.Next) {
	itv := v.eval(st, n.Iter)
	it := itv.it
	if it == nil {
		v.fail("Next on unknown iterator")
	}
	tt := n.Type().(*types.Tuple)
	res := Value{T: tt}
	ok := v.e.sy.Fresh("next_ok", SBool)
	res.L = append(res.L, ok)
	if it.isStr {
		// string iteration: arbitrary index / rune
		kv := st.freshValue("rk", tt.At(1).Type())
		vv := st.freshValue("rv", tt.At(2).Type())
		res.L = append(res.L, kv.L...)
		res.L = append(res.L, vv.L...)
		v.setReg(st, n, res)
		return
	}
	mt := it.mapType
	m := v.e.mapModelOf(mt)
	key := st.freshValue("mk", mt.Key())
	kt := m.key(key)
	dom := Select(st.mapArr(m.domName(), m.domSort()), it.mapVal.L[0])
	// ok: key is a not-yet-visited member; !ok: everything visited
	st.assume(Implies(ok, And(Neq(it.mapVal.L[0], IntLit(0)), Select(dom, kt), Not(Select(it.visited, kt)))))
	q := v.e.sy.Fresh("qk", m.keySort)
	st.assume(Implies(Not(ok), Or(Eq(it.mapVal.L[0], IntLit(0)), Forall([]*Term{q}, Implies(mk("select", SBool, dom, q), mk("select", SBool, it.visited, q))))))
	val, _ := v.mapGet(st, mt, it.mapVal.L[0], key, false)
	st.assumeWF(val)
	// key/value slots in the tuple may be of invalid type when unused
	kT, vT := tt.At(1).Type(), tt.At(2).Type()
	if v.e.lay.Size(kT) == len(key.L) {
		res.L = append(res.L, key.L...)
	} else {
		res.L = append(res.L, v.e.zeroValue(kT).L...)
	}
	if v.e.lay.Size(vT) == len(val.L) {
		res.L = append(res.L, val.L...)
	} else {
		res.L = append(res.L, v.e.zeroValue(vT).L...)
	}
	// advance
	ni := *it
	ni.visited = st.define("visited", Ite(ok, Store(it.visited, kt, TTrue), it.visited))
	itv.it = &ni
	st.top().regs[n.Iter] = itv
	v.setReg(st, n, res)
}

// ---------------------------------------------------------------------------
// ghost fields: one 2-D array per (type, field, leaf)

func ghostArrName(typeKey, field string, i int) string {
	return fmt.Sprintf("ghost:%s.%s:%d", typeKey, field, i)
}

func (v *Verifier) ghostLoad(st *State, typeKey, field string, blk, off *Term, t types.Type) Value {
	lay := v.e.lay.Of(t)
	val := Value{T: t, L: make([]*Term, len(lay))}
	for i, sl := range lay {
		arr := st.mapArr(ghostArrName(typeKey, field, i), memSort(sl.K))
		val.L[i] = Select(Select(arr, blk), off)
	}
	return val
}

func (v *Verifier) ghostStore(st *State, typeKey, field string, blk, off *Term, val Value) {
	st.dirty()
	lay := v.e.lay.Of(val.T)
	for i, sl := range lay {
		name := ghostArrName(typeKey, field, i)
		arr := st.mapArr(name, memSort(sl.K))
		st.maps[name] = st.define("gh", Store(arr, blk, Store(Select(arr, blk), off, val.L[i])))
	}
}
