package main

import (
	"flag"
	"fmt"
	"go/types"
	"os"
	"path/filepath"
	"sort"
	"strings"
	"sync"
	"time"

	"golang.org/x/tools/go/ssa"
)

func usage() {
	fmt.Fprintln(os.Stderr, `usage:
  govc check  -property C12 [-tier quick|thorough] [-repo /repo] [-verif /verif]
  govc verify [-repo /repo] [-verif /verif] [-v] <function key substring>...
  govc dump   [-repo /repo] <function key substring>
  govc list   [-repo /repo] [-verif /verif]`)
	os.Exit(2)
}

func main() {
	if len(os.Args) < 2 {
		usage()
	}
	// the repository needs go >= 1.26.5; the default go on PATH is older
	os.Setenv("PATH", "/opt/veriftools/go1.26.8/bin:"+os.Getenv("PATH"))
	os.Setenv("GOTOOLCHAIN", "local")
	os.Setenv("GOFLAGS", "-mod=mod")
	os.Setenv("GOPROXY", "off")
	os.Setenv("GOSUMDB", "off")
	cmd := os.Args[1]
	fs := flag.NewFlagSet(cmd, flag.ExitOnError)
	repo := fs.String("repo", "/repo", "repository root")
	verif := fs.String("verif", "/verif", "verif root")
	prop := fs.String("property", "", "property id")
	tier := fs.String("tier", "quick", "quick|thorough")
	verbose := fs.Bool("v", false, "verbose")
	keep := fs.Bool("keep", false, "keep smt files")
	timeout := fs.Int("timeout", 0, "per-obligation timeout (s)")
	jobs := fs.Int("j", 12, "parallel solver jobs")
	only := fs.String("only", "", "verify: solve only obligations whose name contains this substring")
	nocache := fs.Bool("nocache", false, "do not use the proof cache")
	fast := fs.Bool("fast", false, "development mode: short timeouts, first solver stage only")
	pkgsFlag := fs.String("pkgs", "./...", "package patterns (comma separated)")
	_ = fs.Parse(os.Args[2:])

	opts := Options{Verbose: *verbose, Jobs: *jobs, Keep: *keep}
	opts.TimeoutS = 20
	if *tier == "thorough" {
		opts.TimeoutS = 60
	}
	if *timeout > 0 {
		opts.TimeoutS = *timeout
	}
	if *fast {
		opts.TimeoutS = 3
		fastMode = true
	}
	work, err := os.MkdirTemp("", "govc-")
	if err != nil {
		fatal(err)
	}
	opts.WorkDir = work
	if !*keep {
		defer os.RemoveAll(work)
	}
	t0 := time.Now()
	e, err := LoadEngine(*repo, strings.Split(*pkgsFlag, ","), opts)
	if err != nil {
		fatal(err)
	}
	e.verifDir = *verif
	if err := e.loadContracts(filepath.Join(*verif, "contracts", "extern")); err != nil {
		fatal(err)
	}
	if !*nocache && *tier != "thorough" {
		e.cache = loadProofCache(filepath.Join(*verif, "cache", "proofs.txt"))
		defer e.cache.save()
	}
	if err := e.loadAxioms(); err != nil {
		fatal(err)
	}
	if *verbose {
		fmt.Fprintf(os.Stderr, "loaded in %.1fs: %d functions, %d contracts\n", time.Since(t0).Seconds(), len(e.funcs), len(e.ct.Funcs))
	}
	switch cmd {
	case "dump":
		for _, pat := range fs.Args() {
			for _, k := range e.matchFuncs(pat) {
				e.funcs[k].WriteTo(os.Stdout)
				fi := e.info(e.funcs[k])
				for _, li := range fi.loopList {
					fmt.Printf("# loop #%d header block %d, cells:", li.Ordinal, li.Header.Index)
					for _, a := range li.ModCells {
						fmt.Printf(" %s(%s)", a.Name(), a.Comment)
					}
					fmt.Println()
				}
			}
		}
	case "list":
		for _, k := range e.ct.sortedFuncKeys() {
			fc := e.ct.Funcs[k]
			fmt.Printf("%-90s props=%v body=%v\n", k, fc.Props, !fc.NoBody)
		}
	case "verify":
		var targets []string
		for _, pat := range fs.Args() {
			targets = append(targets, e.matchFuncs(pat)...)
		}
		var filter func(*Obligation) bool
		if *only != "" {
			filter = func(o *Obligation) bool { return strings.Contains(o.Name, *only) }
		}
		run := e.verifyFunctions(targets, filter)
		run.print(os.Stdout, *verbose)
		e.cache.save()
		if run.failed() {
			if !*keep {
				os.RemoveAll(work)
			}
			os.Exit(1)
		}
	case "claims":
		// print the obligation names of a property on the current tree (to be committed as claims/<id>.txt)
		var targets []string
		for _, k := range e.ct.sortedFuncKeys() {
			fc := e.ct.Funcs[k]
			if !fc.NoBody && !fc.IsIface && hasProp(fc.Props, *prop) {
				targets = append(targets, k)
			}
		}
		run := e.verifyFunctions(targets, func(o *Obligation) bool { return false })
		e.proveLemmasNames(run, *prop)
		seen := map[string]bool{}
		var names []string
		for _, o := range run.allObs() {
			if hasProp(o.Props, *prop) && o.Clause != nil && !seen[baseName(o.Name)] {
				seen[baseName(o.Name)] = true
				names = append(names, baseName(o.Name))
			}
		}
		sort.Strings(names)
		for _, n := range names {
			fmt.Println(n)
		}
	case "check":
		if *prop == "" {
			usage()
		}
		code := e.checkProperty(*prop, *tier, *verif, time.Now())
		e.cache.save()
		if !*keep {
			os.RemoveAll(work)
		}
		os.Exit(code)
	default:
		usage()
	}
}

func fatal(err error) {
	fmt.Fprintln(os.Stderr, "govc:", err)
	os.Exit(2)
}

func (e *Engine) matchFuncs(pat string) []string {
	var out []string
	if _, ok := e.funcs[pat]; ok {
		return []string{pat}
	}
	for k := range e.funcs {
		if strings.Contains(k, pat) {
			out = append(out, k)
		}
	}
	sort.Strings(out)
	return out
}

// ---------------------------------------------------------------------------

type FuncResult struct {
	Key     string
	Paths   int
	Unsup   []string
	Obs     []*Obligation
	Reach   []*Obligation
	HasBody bool
}

type Run struct {
	e      *Engine
	Funcs  []*FuncResult
	Lemmas []*Obligation
	Stats  *SolverStats
	Wall   float64
	Broken []string
}

func (r *Run) allObs() []*Obligation {
	var out []*Obligation
	for _, f := range r.Funcs {
		out = append(out, f.Obs...)
		out = append(out, f.Reach...)
	}
	out = append(out, r.Lemmas...)
	return out
}

func (r *Run) failed() bool {
	for _, f := range r.Funcs {
		if len(f.Unsup) > 0 {
			return true
		}
	}
	for _, o := range r.allObs() {
		if !o.ok() {
			return true
		}
	}
	return len(r.Broken) > 0
}

func (o *Obligation) ok() bool {
	if o.Static {
		return o.StaticOK
	}
	if o.Kind == "reach" {
		return o.Result.Status != "unsat"
	}
	return o.Result.Status == "unsat"
}

func (e *Engine) verifyFunctions(keys []string, propFilter func(*Obligation) bool) *Run {
	t0 := time.Now()
	run := &Run{e: e, Stats: NewSolverStats()}
	for _, k := range keys {
		fn := e.funcs[k]
		if fn == nil {
			run.Broken = append(run.Broken, "no such function: "+k)
			continue
		}
		fc := e.ct.Funcs[k]
		fr := e.verifyOne(fn, fc)
		run.Funcs = append(run.Funcs, fr)
	}
	// name instances, then solve
	var all []*Obligation
	for _, fr := range run.Funcs {
		nameInstances(fr.Obs)
		all = append(all, fr.Obs...)
		all = append(all, fr.Reach...)
	}
	if propFilter != nil {
		var kept []*Obligation
		for _, o := range all {
			if propFilter(o) {
				kept = append(kept, o)
			}
		}
		all = kept
	}
	e.solveAll(all, run.Stats)
	run.Wall = time.Since(t0).Seconds()
	return run
}

func (e *Engine) verifyOne(fn *ssa.Function, fc *FuncContract) *FuncResult {
	// per-function registries: the VCs of a function must not depend on which functions were
	// verified before it in the same run (proof-cache keys, reproducibility)
	e.tids = map[string]int{}
	e.tidType = map[int]types.Type{}
	// (the string-literal registry is not reset: literal names are hashes of their contents and the
	// axioms emitted at solve time cover exactly the literals an obligation mentions)
	strideSy = e.sy
	opaqueStride = fc != nil && fc.OpaqueStrides
	if !opaqueStride && fn.Parent() != nil {
		// closures follow the function they are declared in
		root := fn
		for root.Parent() != nil {
			root = root.Parent()
		}
		if pc := e.ct.Funcs[funcKey(root)]; pc != nil && pc.OpaqueStrides {
			opaqueStride = true
		}
	}
	defer func() { opaqueStride = false }()
	v := e.NewVerifier(fn, fc)
	fr := &FuncResult{Key: v.key, HasBody: len(fn.Blocks) > 0}
	if fc != nil {
		for _, ab := range fc.Ats {
			ab.seen = false
		}
	}
	if err := v.Run(); err != nil {
		fr.Unsup = append(fr.Unsup, err.Error())
	}
	if fc != nil && len(v.unsup) == 0 {
		for _, ab := range fc.Ats {
			if !ab.seen {
				fr.Unsup = append(fr.Unsup, fmt.Sprintf("at-block %s #%d matched no call on any path (code restructured?)", ab.Callee, ab.Ordinal))
			}
		}
	}
	fr.Unsup = append(fr.Unsup, v.unsup...)
	fr.Paths = v.ends
	fr.Obs = v.obs
	// reachability (vacuity) obligations: every return that some path reaches must be reachable
	var rets []ssa.Instruction
	for ins := range v.reachRet {
		rets = append(rets, ins)
	}
	sort.Slice(rets, func(i, j int) bool { return rets[i].Pos() < rets[j].Pos() })
	for i, ins := range rets {
		pcs := v.reachRet[ins]
		kind := "return"
		if _, ok := ins.(*ssa.Return); !ok {
			kind = "loop-body-end"
		}
		ob := &Obligation{Name: fmt.Sprintf("%s#reach[%s %d]", v.key, kind, i+1), Kind: "reach", Func: v.key, Pos: v.pos(ins.Pos()), PC: pcs[0], Goal: nil}
		if fc != nil {
			ob.Props = fc.Props
		}
		ob.altPCs = pcs[1:]
		fr.Reach = append(fr.Reach, ob)
	}
	if len(v.unsup) == 0 && len(rets) == 0 && (fc == nil || !fc.MayPanic) {
		fr.Unsup = append(fr.Unsup, "no return is reached on any path")
	}
	return fr
}

// nameInstances appends an ordinal to obligations that share a name but sit at
// different source positions; obligations at the same site on different paths
// keep the same name (they are instances of one obligation).
func nameInstances(obs []*Obligation) {
	byName := map[string][]*Obligation{}
	for _, o := range obs {
		byName[o.Name] = append(byName[o.Name], o)
	}
	for name, group := range byName {
		if group[0].Clause != nil {
			continue // instances of one contract clause share its name
		}
		posSet := map[string]bool{}
		var poss []string
		for _, o := range group {
			p := fmt.Sprintf("%s:%08d:%04d", o.Pos.Filename, o.Pos.Line, o.Pos.Column)
			if !posSet[p] {
				posSet[p] = true
				poss = append(poss, p)
			}
		}
		if len(poss) <= 1 {
			continue
		}
		sort.Strings(poss)
		idx := map[string]int{}
		for i, p := range poss {
			idx[p] = i + 1
		}
		for _, o := range group {
			p := fmt.Sprintf("%s:%08d:%04d", o.Pos.Filename, o.Pos.Line, o.Pos.Column)
			o.Name = fmt.Sprintf("%s(%d)", name, idx[p])
		}
	}
}

func (e *Engine) background(used map[string]bool) []*Term {
	var ax []*Term
	ax = append(ax, e.stringAxioms(used)...)
	if used["str_rank"] {
		a := &Term{op: "const", name: "sa", sort: SStr}
		rank := func(x *Term) *Term { return e.sy.App("str_rank", SReal, x) }
		ax = append(ax,
			// injective: equal ranks mean equal strings
			ForallPat([]*Term{a}, mk("=", SBool, e.sy.App("str_unrank", SStr, rank(a)), a), []*Term{rank(a)}),
			// the empty string is the least one
			ForallPat([]*Term{a}, mk(">=", SBool, rank(a), rank(e.strLit(""))), []*Term{rank(a)}),
		)
	}
	{
		var ns []string
		for n := range used {
			if strings.HasPrefix(n, "stride") {
				ns = append(ns, n)
			}
		}
		sort.Strings(ns)
		for _, n := range ns {
			var k int64
			if _, err := fmt.Sscanf(n, "stride%d", &k); err != nil || k <= 1 {
				continue
			}
			x := &Term{op: "const", name: "sx", sort: SInt}
			app := e.sy.App(n, SInt, x)
			ax = append(ax, ForallPat([]*Term{x}, mk("=", SBool, app, Mul(x, IntLit(k))), []*Term{app}))
		}
	}
	if used["mod"] && e.withLemmas {
		// arithmetic lemmas (valid in integer arithmetic; they only help instantiation)
		a := &Term{op: "const", name: "ma", sort: SInt}
		c := &Term{op: "const", name: "mc", sort: SInt}
		pat := func(body *Term, p *Term) *Term {
			return &Term{op: "!", args: []*Term{body, {op: ":pattern", sort: SBool}, {op: "(" + p.String() + ")", sort: SBool}}, sort: SBool}
		}
		m := mk("mod", SInt, a, c)
		ax = append(ax,
			&Term{op: "forall", bound: []*Term{a, c}, args: []*Term{pat(Implies(And(Le(IntLit(0), a), Lt(a, c)), mk("=", SBool, m, a)), m)}, sort: SBool},
			&Term{op: "forall", bound: []*Term{a, c}, args: []*Term{pat(Implies(And(Lt(IntLit(0), c), Le(c, a), Lt(a, Add(c, c))), mk("=", SBool, m, Sub(a, c))), m)}, sort: SBool},
		)
		b := &Term{op: "const", name: "mb", sort: SInt}
		mb := mk("mod", SInt, b, c)
		body := Implies(And(Le(IntLit(0), a), Lt(a, b), Lt(Sub(b, a), c)), Not(mk("=", SBool, m, mb)))
		ax = append(ax, &Term{op: "forall", bound: []*Term{a, b, c}, args: []*Term{{op: "!", args: []*Term{body, {op: ":pattern", sort: SBool}, {op: "(" + m.String() + " " + mb.String() + ")", sort: SBool}}, sort: SBool}}, sort: SBool})
	}
	// user axioms: only those that mention an uninterpreted function used by the query
	for _, a := range e.axioms {
		syms := map[string]bool{}
		collectSyms(a, map[string]bool{}, syms)
		for s := range syms {
			if strings.HasPrefix(s, "fn_") && used[s] {
				ax = append(ax, a)
				break
			}
		}
	}
	return ax
}

func (e *Engine) buildQuery(pc []*Term, goal *Term, model bool) string {
	used := map[string]bool{}
	for _, t := range pc {
		collectSyms(t, map[string]bool{}, used)
	}
	if goal != nil {
		collectSyms(goal, map[string]bool{}, used)
	}
	ax := e.background(used)
	q := e.sy.Query(ax, pc, goal, model)
	if used["mod"] {
		e.withLemmas = true
		q2 := e.sy.Query(e.background(used), pc, goal, model)
		e.withLemmas = false
		q += variantSep + q2
	}
	return q
}

// queries may carry a second variant (with arithmetic lemmas) after this separator
const variantSep = "\n;;;; VARIANT ;;;;\n"

func (e *Engine) solveAll(obs []*Obligation, stats *SolverStats) {
	tStart := time.Now()
	defer func() {
		if e.opts.Verbose {
			fmt.Fprintf(os.Stderr, "solveAll: %d obligations in %.1fs\n", len(obs), time.Since(tStart).Seconds())
		}
	}()
	type job struct{ o *Obligation }
	// build queries sequentially (symbol table is not concurrent), dedupe identical queries
	cache := map[string][]*Obligation{}
	var order []string
	for _, o := range obs {
		if o.Static {
			continue
		}
		if o.Kind != "reach" && o.Goal.IsTrue() {
			o.Static, o.StaticOK = true, true
			continue
		}
		if o.Kind != "reach" && o.Goal.IsFalse() && len(o.PC) == 0 {
			o.Static, o.StaticOK = true, false
			continue
		}
		o.Query = e.buildQuery(o.PC, o.Goal, true)
		if o.Goal != nil && o.Goal.op == "and" && hasQuantifier(o.Goal) {
			// quantified conjunctions are proved conjunct by conjunct
			for _, c := range o.Goal.args {
				o.parts = append(o.parts, e.buildQuery(o.PC, c, true))
			}
		}
		if o.frameGoal != nil {
			var qf []*Term
			for _, t := range o.PC {
				if !hasQuantifier(t) {
					qf = append(qf, t)
				}
			}
			o.frameQuery = e.buildQuery(qf, o.frameGoal, false)
		}
		for i := range o.views {
			vw := &o.views[i]
			vw.query = e.buildQuery(vw.pc, o.Goal, true)
			if len(o.parts) > 0 {
				for _, c := range o.Goal.args {
					vw.parts = append(vw.parts, e.buildQuery(vw.pc, c, true))
				}
			}
		}
		if _, ok := cache[o.Query]; !ok {
			order = append(order, o.Query)
		}
		cache[o.Query] = append(cache[o.Query], o)
	}
	if e.opts.Keep {
		var idx strings.Builder
		for _, q := range order {
			for _, o := range cache[q] {
				fmt.Fprintf(&idx, "%x %s path=%v\n", hashString(q), o.Name, o.Path)
			}
		}
		os.WriteFile(filepath.Join(e.opts.WorkDir, "INDEX.txt"), []byte(idx.String()), 0o644)
	}
	if e.opts.Verbose {
		fmt.Fprintf(os.Stderr, "queries built: %d distinct in %.1fs\n", len(order), time.Since(tStart).Seconds())
	}
	jobs := e.opts.Jobs
	if jobs <= 0 {
		jobs = 8
	}
	var wg sync.WaitGroup
	ch := make(chan string)
	for i := 0; i < jobs; i++ {
		wg.Add(1)
		go func() {
			defer wg.Done()
			for q := range ch {
				func() {
					group := cache[q]
					first := group[0]
					tq := time.Now()
					defer func(name string) {
						if e.opts.Verbose && time.Since(tq).Seconds() > 2.5 {
							fmt.Fprintf(os.Stderr, "slow: %.1fs %s\n", time.Since(tq).Seconds(), name)
						}
					}(first.Name)
					name := fmt.Sprintf("%x", hashString(q))
					ckey := ""
					if e.cache != nil {
						ckey = proofKey(q)
						if first.Kind == "reach" {
							ckey = "reach:" + ckey
						}
						if e.cache.has(ckey) {
							res := SolveResult{Status: "unsat", Solver: "cache"}
							if first.Kind == "reach" {
								res.Status = "sat" // a cached reachability verdict: the path condition was not refuted
							}
							for _, o := range group {
								o.Result = res
							}
							return
						}
					}
					defer func() {
						if ckey == "" {
							return
						}
						if first.Kind == "reach" {
							if group[0].Result.Status != "unsat" && group[0].Result.Status != "error" {
								e.cache.add(ckey)
							}
						} else if group[0].Result.Status == "unsat" {
							e.cache.add(ckey)
						}
					}()
					to := e.opts.TimeoutS
					if first.Kind == "reach" {
						to = 2 // unknown is an acceptable answer for reachability
					}
					var res SolveResult
					solveParts := func(parts []string, to int) SolveResult {
						results := make([]SolveResult, len(parts))
						var pwg sync.WaitGroup
						for i, pq := range parts {
							pwg.Add(1)
							go func(i int, pq string) {
								defer pwg.Done()
								results[i] = SolveHint(e.opts.WorkDir, fmt.Sprintf("%x", hashString(pq)), pq, to, stats, first.Name+"#part")
							}(i, pq)
						}
						pwg.Wait()
						res := SolveResult{Status: "unsat", Solver: "split"}
						for _, pr := range results {
							if pr.Seconds > res.Seconds {
								res.Seconds = pr.Seconds
							}
							if pr.Status != "unsat" {
								return pr
							}
							res.Solver = pr.Solver + "(split)"
						}
						return res
					}
					// proof by framing: quantifier-free sufficient condition
					if first.frameQuery != "" {
						fr := SolveHint(e.opts.WorkDir, name+"f", first.frameQuery, 4, stats, first.Name+"#frame")
						if fr.Status == "unsat" {
							fr.Solver += "(framing)"
							for _, o := range group {
								o.Result = fr
							}
							return
						}
					}
					// cheaper views first (sound: fewer assumptions)
					for vi, vw := range first.views {
						tu := to
						if vw.budget > 0 && vw.budget < tu {
							tu = vw.budget
						}
						if len(vw.parts) > 0 {
							res = solveParts(vw.parts, tu)
						} else {
							res = SolveHint(e.opts.WorkDir, fmt.Sprintf("%sv%d", name, vi), vw.query, tu, stats, first.Name+"#"+vw.label)
						}
						if res.Status == "unsat" {
							res.Solver += "(" + vw.label + ")"
							for _, o := range group {
								o.Result = res
							}
							return
						}
						if e.opts.Verbose && vw.label != "qf" {
							fmt.Fprintf(os.Stderr, "%s-attempt failed (%s) for %s path=%v\n", vw.label, res.Status, first.Name, first.Path)
						}
					}
					if len(first.parts) > 0 {
						res = solveParts(first.parts, to)
					} else {
						res = SolveHint(e.opts.WorkDir, name, q, to, stats, first.Name)
					}
					if first.Kind == "reach" && res.Status == "unsat" {
						// try alternative paths to the same return
						for _, pc := range first.altPCs {
							q2 := e.buildQueryLocked(pc)
							r2 := Solve(e.opts.WorkDir, fmt.Sprintf("%x", hashString(q2)), q2, 2, stats)
							if r2.Status != "unsat" {
								res = r2
								break
							}
						}
					}
					for _, o := range group {
						o.Result = res
					}
				}()
			}
		}()
	}
	for _, q := range order {
		ch <- q
	}
	close(ch)
	wg.Wait()
}

var queryMu sync.Mutex

func (e *Engine) buildQueryLocked(pc []*Term) string {
	queryMu.Lock()
	defer queryMu.Unlock()
	return e.buildQuery(pc, nil, false)
}

func (r *Run) print(w *os.File, verbose bool) {
	for _, f := range r.Funcs {
		okN, badN := 0, 0
		for _, o := range append(append([]*Obligation{}, f.Obs...), f.Reach...) {
			if !o.Static && o.Result.Status == "" {
				continue // filtered out
			}
			if o.ok() {
				okN++
			} else {
				badN++
			}
		}
		fmt.Fprintf(w, "%s: paths=%d obligations=%d ok=%d failed=%d\n", f.Key, f.Paths, okN+badN, okN, badN)
		for _, u := range f.Unsup {
			fmt.Fprintf(w, "  UNVERIFIED: %s\n", u)
		}
		for _, o := range append(append([]*Obligation{}, f.Obs...), f.Reach...) {
			if !o.Static && o.Result.Status == "" {
				continue
			}
			if !o.ok() || verbose {
				status := o.Result.Status
				if o.Static {
					status = fmt.Sprintf("static:%v", o.StaticOK)
				}
				fmt.Fprintf(w, "  [%s] %s (%s:%d) %s %.2fs path=%v\n", status, o.Name, filepath.Base(o.Pos.Filename), o.Pos.Line, o.Result.Solver, o.Result.Seconds, o.Path)
				if !o.ok() && verbose && o.Result.Model != "" {
					fmt.Fprintf(w, "%s\n", indent(truncate(o.Result.Model, 3000), "      "))
				}
			}
		}
	}
	fmt.Fprintf(w, "wall %.1fs solver wins %v seconds %v\n", r.Wall, r.Stats.Wins, fmtSecs(r.Stats.Seconds))
}

func fmtSecs(m map[string]float64) string {
	var ks []string
	for k := range m {
		ks = append(ks, k)
	}
	sort.Strings(ks)
	var parts []string
	for _, k := range ks {
		parts = append(parts, fmt.Sprintf("%s=%.1f", k, m[k]))
	}
	return strings.Join(parts, " ")
}

func indent(s, pre string) string {
	return pre + strings.ReplaceAll(s, "\n", "\n"+pre)
}
