package main

// Per-function static analysis: cell-able allocs, natural loops, variable names.

import (
	"go/types"
	"sort"

	"golang.org/x/tools/go/ssa"
)

type LoopInfo struct {
	Ordinal     int
	Header      *ssa.BasicBlock
	Blocks      map[*ssa.BasicBlock]bool
	ModCells    []*ssa.Alloc // cell allocs stored to inside the loop
	HasMemWrite bool         // any store through memory pointer / impure call
	ModFree     []*ssa.FreeVar
}

type FuncInfo struct {
	fn       *ssa.Function
	cellable map[*ssa.Alloc]bool
	loops    map[*ssa.BasicBlock]*LoopInfo
	loopList []*LoopInfo
	varAlloc map[string][]*ssa.Alloc // source name -> allocs (declaration order)
	hasLoop  bool
}

func (e *Engine) info(fn *ssa.Function) *FuncInfo {
	if fi, ok := e.infos[fn]; ok {
		return fi
	}
	fi := &FuncInfo{fn: fn, cellable: map[*ssa.Alloc]bool{}, loops: map[*ssa.BasicBlock]*LoopInfo{}, varAlloc: map[string][]*ssa.Alloc{}}
	e.infos[fn] = fi
	if len(fn.Blocks) == 0 {
		return fi
	}
	for _, b := range fn.Blocks {
		for _, ins := range b.Instrs {
			if a, ok := ins.(*ssa.Alloc); ok {
				fi.cellable[a] = allocIsCellable(a)
				if a.Comment != "" {
					fi.varAlloc[a.Comment] = append(fi.varAlloc[a.Comment], a)
				}
			}
		}
	}
	// natural loops: back edge t->h where h dominates t
	for _, b := range fn.Blocks {
		for _, s := range b.Succs {
			if s.Dominates(b) {
				li := fi.loops[s]
				if li == nil {
					li = &LoopInfo{Header: s, Blocks: map[*ssa.BasicBlock]bool{s: true}}
					fi.loops[s] = li
				}
				// collect body: all blocks that reach b without passing through s
				var stack []*ssa.BasicBlock
				if !li.Blocks[b] {
					li.Blocks[b] = true
					stack = append(stack, b)
				}
				for len(stack) > 0 {
					x := stack[len(stack)-1]
					stack = stack[:len(stack)-1]
					for _, p := range x.Preds {
						if !li.Blocks[p] {
							li.Blocks[p] = true
							stack = append(stack, p)
						}
					}
				}
			}
		}
	}
	var headers []*ssa.BasicBlock
	for h := range fi.loops {
		headers = append(headers, h)
	}
	sort.Slice(headers, func(i, j int) bool { return headers[i].Index < headers[j].Index })
	for i, h := range headers {
		li := fi.loops[h]
		li.Ordinal = i + 1
		fi.loopList = append(fi.loopList, li)
		seen := map[*ssa.Alloc]bool{}
		seenFV := map[*ssa.FreeVar]bool{}
		for b := range li.Blocks {
			for _, ins := range b.Instrs {
				switch ins := ins.(type) {
				case *ssa.Store:
					if a := rootAlloc(ins.Addr); a != nil && fi.cellable[a] {
						if !seen[a] {
							seen[a] = true
							li.ModCells = append(li.ModCells, a)
						}
					} else {
						if fv, ok := ins.Addr.(*ssa.FreeVar); ok {
							if !seenFV[fv] {
								seenFV[fv] = true
								li.ModFree = append(li.ModFree, fv)
							}
						}
						li.HasMemWrite = true
					}
				case *ssa.Alloc:
					// allocs inside loops are re-zeroed on each execution
					if fi.cellable[ins] && !seen[ins] {
						seen[ins] = true
						li.ModCells = append(li.ModCells, ins)
					}
				case *ssa.MapUpdate, *ssa.Call, *ssa.Defer, *ssa.Go, *ssa.Send, *ssa.Select:
					li.HasMemWrite = true
				case *ssa.UnOp:
					if ins.Op.String() == "<-" {
						li.HasMemWrite = true
					}
				}
			}
		}
		sort.Slice(li.ModCells, func(i, j int) bool {
			return li.ModCells[i].Pos() < li.ModCells[j].Pos() || (li.ModCells[i].Pos() == li.ModCells[j].Pos() && li.ModCells[i].Name() < li.ModCells[j].Name())
		})
	}
	fi.hasLoop = len(fi.loopList) > 0
	return fi
}

// rootAlloc follows FieldAddr / constant IndexAddr chains to an Alloc.
func rootAlloc(v ssa.Value) *ssa.Alloc {
	for {
		switch x := v.(type) {
		case *ssa.Alloc:
			return x
		case *ssa.FieldAddr:
			v = x.X
		case *ssa.IndexAddr:
			if _, ok := x.Index.(*ssa.Const); !ok {
				return nil
			}
			if _, ok := x.X.Type().Underlying().(*types.Pointer); !ok {
				return nil
			}
			v = x.X
		default:
			return nil
		}
	}
}

func allocIsCellable(a *ssa.Alloc) bool {
	var ok func(v ssa.Value) bool
	ok = func(v ssa.Value) bool {
		refs := v.Referrers()
		if refs == nil {
			return false
		}
		for _, r := range *refs {
			switch r := r.(type) {
			case *ssa.Store:
				if r.Val == v {
					return false
				}
			case *ssa.UnOp:
				if r.Op.String() != "*" {
					return false
				}
			case *ssa.FieldAddr:
				if !ok(r) {
					return false
				}
			case *ssa.IndexAddr:
				if _, c := r.Index.(*ssa.Const); !c || r.X != v {
					return false
				}
				if _, isPtr := r.X.Type().Underlying().(*types.Pointer); !isPtr {
					return false
				}
				if !ok(r) {
					return false
				}
			case *ssa.DebugRef:
			default:
				return false
			}
		}
		return true
	}
	return ok(a)
}
