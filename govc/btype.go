package main

// Block typing: every block is allocated with one Go type. Pointers to repo
// struct types that are never embedded by value, and slices, carry the
// assumption that their block has the matching allocation type. This separates
// e.g. a struct from the backing array of one of its slice fields.

import (
	"go/types"
	"strings"
)

type typeUniverse struct {
	embedded  map[string]bool // named types that occur by value inside a struct or array (interior pointers possible)
	arrayElem map[string]bool // element types of arrays embedded in structs
}

func (e *Engine) universe() *typeUniverse {
	if e.tu != nil {
		return e.tu
	}
	tu := &typeUniverse{embedded: map[string]bool{}, arrayElem: map[string]bool{}}
	seen := map[types.Type]bool{}
	var walk func(t types.Type, byValue bool)
	walk = func(t types.Type, byValue bool) {
		if byValue {
			if n, ok := t.(*types.Named); ok {
				tu.embedded[types.TypeString(n, nil)] = true
			}
		}
		if seen[t] {
			return
		}
		seen[t] = true
		switch u := t.Underlying().(type) {
		case *types.Struct:
			for i := 0; i < u.NumFields(); i++ {
				ft := u.Field(i).Type()
				if at, ok := ft.Underlying().(*types.Array); ok {
					tu.arrayElem[types.TypeString(at.Elem(), nil)] = true
				}
				walk(ft, true)
			}
		case *types.Array:
			walk(u.Elem(), true)
		case *types.Slice:
			walk(u.Elem(), false)
		case *types.Pointer:
			walk(u.Elem(), false)
		case *types.Map:
			walk(u.Key(), false)
			walk(u.Elem(), false)
		}
	}
	for path, p := range e.pkgByPath {
		if !strings.HasPrefix(path, modulePath) || p.Types == nil {
			continue
		}
		sc := p.Types.Scope()
		for _, name := range sc.Names() {
			if tn, ok := sc.Lookup(name).(*types.TypeName); ok {
				walk(tn.Type(), false)
			}
		}
		// types used in function bodies (local struct types, composite literals)
		if p.TypesInfo != nil {
			for _, tv := range p.TypesInfo.Types {
				if tv.Type != nil {
					walk(tv.Type, false)
				}
			}
		}
	}
	e.tu = tu
	return tu
}

func (e *Engine) btype(blk *Term) *Term { return e.sy.App("btype", SInt, blk) }

// allocTypeID is the allocation type recorded for a block holding a T.
func (e *Engine) allocTypeID(t types.Type) *Term {
	if at, ok := t.Underlying().(*types.Array); ok {
		return IntLit(int64(e.typeID(types.NewSlice(at.Elem()))))
	}
	return IntLit(int64(e.typeID(t)))
}

func isRepoNamed(t types.Type) (*types.Named, bool) {
	n, ok := t.(*types.Named)
	if !ok || n.Obj().Pkg() == nil || !strings.HasPrefix(n.Obj().Pkg().Path(), modulePath) {
		return nil, false
	}
	if n.TypeArgs() != nil && n.TypeArgs().Len() > 0 {
		return nil, false
	}
	if n.TypeParams() != nil && n.TypeParams().Len() > 0 {
		return nil, false
	}
	return n, true
}

// blockTypeFact returns the assumption tying a pointer/slice value of static
// type t (leaves blk, off) to its block's allocation type, or nil.
func (e *Engine) blockTypeFact(t types.Type, blk, off *Term) *Term {
	tu := e.universe()
	switch u := t.Underlying().(type) {
	case *types.Pointer:
		n, ok := isRepoNamed(u.Elem())
		if !ok {
			return nil
		}
		if _, isStruct := n.Underlying().(*types.Struct); !isStruct {
			return nil
		}
		if tu.embedded[types.TypeString(n, nil)] {
			return nil
		}
		own := And(Eq(e.btype(blk), IntLit(int64(e.typeID(n)))), Eq(off, IntLit(0)))
		arr := Eq(e.btype(blk), IntLit(int64(e.typeID(types.NewSlice(n)))))
		return Or(Eq(blk, IntLit(0)), own, arr)
	case *types.Slice:
		el := u.Elem()
		if _, isTP := el.(*types.TypeParam); isTP {
			return nil
		}
		if tu.arrayElem[types.TypeString(el, nil)] {
			return nil
		}
		return Or(Eq(blk, IntLit(0)), Eq(e.btype(blk), IntLit(int64(e.typeID(types.NewSlice(el))))))
	}
	return nil
}
