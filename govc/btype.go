package main

// Block typing: every block is allocated with one Go type. Pointers to repo
// struct types that are never embedded by value, and slices, carry the
// assumption that their block has the matching allocation type. This separates
// e.g. a struct from the backing array of one of its slice fields.

import (
	"go/types"
	"sort"
	"strings"

	"golang.org/x/tools/go/ssa"
)

type typeUniverse struct {
	embedded  map[string]bool // named types that occur by value inside a struct or array (interior pointers possible)
	arrayElem map[string]bool // element types of arrays embedded in structs
}

func (e *Engine) universe() *typeUniverse {
	if e.tu != nil {
		return e.tu
	}
	tu := &typeUniverse{embedded: map[string]bool{}, arrayElem: map[string]bool{}}
	seen := map[types.Type]bool{}
	var walk func(t types.Type, byValue bool)
	walk = func(t types.Type, byValue bool) {
		if byValue {
			if n, ok := t.(*types.Named); ok {
				tu.embedded[types.TypeString(n, nil)] = true
			}
		}
		if seen[t] {
			return
		}
		seen[t] = true
		switch u := t.Underlying().(type) {
		case *types.Struct:
			for i := 0; i < u.NumFields(); i++ {
				ft := u.Field(i).Type()
				if at, ok := ft.Underlying().(*types.Array); ok {
					tu.arrayElem[types.TypeString(at.Elem(), nil)] = true
				}
				walk(ft, true)
			}
		case *types.Array:
			walk(u.Elem(), true)
		case *types.Slice:
			walk(u.Elem(), false)
		case *types.Pointer:
			walk(u.Elem(), false)
		case *types.Map:
			walk(u.Key(), false)
			walk(u.Elem(), false)
		}
	}
	for path, p := range e.pkgByPath {
		if !strings.HasPrefix(path, modulePath) || p.Types == nil {
			continue
		}
		sc := p.Types.Scope()
		for _, name := range sc.Names() {
			if tn, ok := sc.Lookup(name).(*types.TypeName); ok {
				walk(tn.Type(), false)
			}
		}
		// types used in function bodies (local struct types, composite literals)
		if p.TypesInfo != nil {
			for _, tv := range p.TypesInfo.Types {
				if tv.Type != nil {
					walk(tv.Type, false)
				}
			}
		}
	}
	e.tu = tu
	return tu
}

func (e *Engine) btype(blk *Term) *Term { return e.sy.App("btype", SInt, blk) }

// allocTypeID is the allocation type recorded for a block holding a T.
func (e *Engine) allocTypeID(t types.Type) *Term {
	if at, ok := t.Underlying().(*types.Array); ok {
		return IntLit(int64(e.typeID(types.NewSlice(at.Elem()))))
	}
	if g := genericRepoStruct(t); g != nil {
		return IntLit(int64(e.typeID(g))) // every instantiation of a generic struct shares one allocation type
	}
	return IntLit(int64(e.typeID(t)))
}

// genericRepoStruct: t is an instantiation of a generic struct type declared in the repository;
// the result is the generic type itself.
func genericRepoStruct(t types.Type) *types.Named {
	n, ok := t.(*types.Named)
	if !ok || n.Obj().Pkg() == nil || !strings.HasPrefix(n.Obj().Pkg().Path(), modulePath) {
		return nil
	}
	if n.TypeArgs() == nil || n.TypeArgs().Len() == 0 {
		return nil
	}
	if _, isStruct := n.Underlying().(*types.Struct); !isStruct {
		return nil
	}
	return n.Origin()
}

// genericEmbedded: some instantiation of the generic struct occurs by value inside another type.
func (tu *typeUniverse) genericEmbedded(g *types.Named) bool {
	prefix := types.TypeString(g, nil)
	if i := strings.Index(prefix, "["); i >= 0 {
		prefix = prefix[:i]
	}
	for k := range tu.embedded {
		if k == prefix || strings.HasPrefix(k, prefix+"[") {
			return true
		}
	}
	return false
}

func isRepoNamed(t types.Type) (*types.Named, bool) {
	n, ok := t.(*types.Named)
	if !ok || n.Obj().Pkg() == nil || !strings.HasPrefix(n.Obj().Pkg().Path(), modulePath) {
		return nil, false
	}
	if n.TypeArgs() != nil && n.TypeArgs().Len() > 0 {
		return nil, false
	}
	if n.TypeParams() != nil && n.TypeParams().Len() > 0 {
		return nil, false
	}
	return n, true
}

// blockTypeFact returns the assumption tying a pointer/slice value of static
// type t (leaves blk, off) to its block's allocation type, or nil.
func (e *Engine) blockTypeFact(t types.Type, blk, off *Term) *Term {
	tu := e.universe()
	switch u := t.Underlying().(type) {
	case *types.Pointer:
		n, ok := isRepoNamed(u.Elem())
		if ok {
			if _, isStruct := n.Underlying().(*types.Struct); !isStruct {
				ok = false
			}
		}
		if g := genericRepoStruct(u.Elem()); !ok && g != nil && !tu.genericEmbedded(g) {
			// pointer to an instantiation of a generic repo struct that is never embedded by value
			own := And(Eq(e.btype(blk), e.allocTypeID(u.Elem())), Eq(off, IntLit(0)))
			arr := Eq(e.btype(blk), IntLit(int64(e.typeID(types.NewSlice(u.Elem())))))
			return Or(Eq(blk, IntLit(0)), own, arr)
		}
		if !ok {
			// pointers to other types (e.g. *uint64): exclude the known allocation types that cannot hold one
			el := u.Elem()
			switch el.Underlying().(type) {
			case *types.Interface, *types.TypeParam:
				return nil
			}
			var cs []*Term
			var ids []int
			for id := range e.tidType {
				ids = append(ids, id)
			}
			sort.Ints(ids)
			for _, id := range ids {
				if !e.canHoldType(e.tidType[id], el, 0) {
					cs = append(cs, Neq(e.btype(blk), IntLit(int64(id))))
				}
			}
			if len(cs) == 0 {
				return nil
			}
			return Or(Eq(blk, IntLit(0)), And(cs...))
		}
		if _, isStruct := n.Underlying().(*types.Struct); !isStruct {
			return nil
		}
		if tu.embedded[types.TypeString(n, nil)] {
			// the type occurs inside other allocations: exclude the known allocation types that cannot hold it
			var cs []*Term
			var ids []int
			for id := range e.tidType {
				ids = append(ids, id)
			}
			sort.Ints(ids)
			for _, id := range ids {
				if !e.canHold(e.tidType[id], n, 0) {
					cs = append(cs, Neq(e.btype(blk), IntLit(int64(id))))
				}
			}
			if len(cs) == 0 {
				return nil
			}
			return Or(Eq(blk, IntLit(0)), And(cs...))
		}
		own := And(Eq(e.btype(blk), IntLit(int64(e.typeID(n)))), Eq(off, IntLit(0)))
		arr := Eq(e.btype(blk), IntLit(int64(e.typeID(types.NewSlice(n)))))
		return Or(Eq(blk, IntLit(0)), own, arr)
	case *types.Slice:
		el := u.Elem()
		// (a slice of a type parameter is treated like any other slice: its backing array is an array
		// allocation - safe Go cannot make a slice over a single struct variable - so it is separate
		// from the blocks of the struct types known here, whatever the type argument is)
		if tu.arrayElem[types.TypeString(el, nil)] {
			return nil
		}
		return Or(Eq(blk, IntLit(0)), Eq(e.btype(blk), IntLit(int64(e.typeID(types.NewSlice(el))))))
	}
	return nil
}

func (e *Engine) canHold(t types.Type, a *types.Named, depth int) bool {
	return e.canHoldType(t, a, depth)
}

// canHoldType: can an allocation of type t contain a value of type a (so that a *a may point into it)?
func (e *Engine) canHoldType(t types.Type, a types.Type, depth int) bool {
	if depth > 6 {
		return true
	}
	if types.Identical(t, a) {
		return true
	}
	switch u := t.Underlying().(type) {
	case *types.Struct:
		for i := 0; i < u.NumFields(); i++ {
			if e.canHoldType(u.Field(i).Type(), a, depth+1) {
				return true
			}
		}
		return false
	case *types.Array:
		return e.canHoldType(u.Elem(), a, depth+1)
	case *types.Slice:
		// allocation type []E: the backing array holds E values
		if _, isNamed := t.(*types.Named); isNamed {
			return false // a named slice type as allocation is a slice header, not the array
		}
		return e.canHoldType(u.Elem(), a, depth+1)
	case *types.TypeParam:
		return true
	case *types.Interface:
		return false
	}
	return false
}

// registerAllocTypes gives an allocation-type id to every struct and slice type that occurs in fn
// (and, two levels deep, in their fields), so that the exclusion facts of blockTypeFact do not
// depend on the order in which values happen to be met during execution.
func (e *Engine) registerAllocTypes(fn *ssa.Function) {
	seen := map[types.Type]bool{}
	var visit func(t types.Type, depth int)
	visit = func(t types.Type, depth int) {
		if t == nil || seen[t] || depth > 3 {
			return
		}
		seen[t] = true
		switch u := t.Underlying().(type) {
		case *types.Pointer:
			visit(u.Elem(), depth)
		case *types.Slice:
			e.typeID(types.NewSlice(u.Elem()))
			visit(u.Elem(), depth+1)
		case *types.Array:
			e.typeID(types.NewSlice(u.Elem()))
			visit(u.Elem(), depth+1)
		case *types.Struct:
			if n, ok := t.(*types.Named); ok {
				if n.TypeArgs() == nil || n.TypeArgs().Len() == 0 {
					e.typeID(n)
				} else if g := genericRepoStruct(n); g != nil {
					e.typeID(g)
				}
			}
			for i := 0; i < u.NumFields(); i++ {
				visit(u.Field(i).Type(), depth+1)
			}
		case *types.Map:
			visit(u.Elem(), depth+1)
		case *types.Tuple:
			for i := 0; i < u.Len(); i++ {
				visit(u.At(i).Type(), depth)
			}
		}
	}
	var walk func(f *ssa.Function)
	walk = func(f *ssa.Function) {
		for _, p := range f.Params {
			visit(p.Type(), 0)
		}
		for _, fv := range f.FreeVars {
			visit(fv.Type(), 0)
		}
		for _, b := range f.Blocks {
			for _, ins := range b.Instrs {
				if val, ok := ins.(ssa.Value); ok {
					visit(val.Type(), 0)
				}
			}
		}
	}
	walk(fn)
}
