package main

// Proof by framing: a quantified goal G that is an existing assumption A with some memory/map
// arrays replaced by later versions holds if every read through the new arrays in G returns the
// same inner array as the corresponding read through the old arrays in A. The side condition is
// quantifier-free (the block terms read are ground), so it is cheap; A => G then follows by
// substitution of equals.

import "strings"

func isStoreSort(s Sort) bool {
	return strings.HasPrefix(string(s), "(Array Int (Array ")
}

// frameMatch compares A and G structurally. Returns the mapping G-array-name -> A-array-name for
// the top-level store arrays that differ, or ok=false.
func frameMatch(a, g *Term, bound map[string]string, pairs map[string]string) bool {
	if a.op == "!" && g.op == "!" {
		return frameMatch(a.args[0], g.args[0], bound, pairs)
	}
	if a.op != g.op || len(a.args) != len(g.args) || a.sort != g.sort {
		return false
	}
	switch a.op {
	case "!":
		// pattern annotation: only the body matters
		if len(a.args) == 0 || len(g.args) == 0 {
			return false
		}
		return frameMatch(a.args[0], g.args[0], bound, pairs)
	case "const":
		if a.name == g.name {
			return true
		}
		if bn, ok := bound[g.name]; ok {
			return bn == a.name
		}
		if isStoreSort(a.sort) {
			if prev, ok := pairs[g.name]; ok {
				return prev == a.name
			}
			pairs[g.name] = a.name
			return true
		}
		return false
	case "int":
		return a.ival.Cmp(g.ival) == 0
	case "bool":
		return a.bval == g.bval
	case "forall", "exists":
		if len(a.bound) != len(g.bound) {
			return false
		}
		nb := map[string]string{}
		for k, v := range bound {
			nb[k] = v
		}
		for i := range a.bound {
			if a.bound[i].sort != g.bound[i].sort {
				return false
			}
			nb[g.bound[i].name] = a.bound[i].name
		}
		return frameMatch(a.args[0], g.args[0], nb, pairs)
	}
	for i := range a.args {
		if !frameMatch(a.args[i], g.args[i], bound, pairs) {
			return false
		}
	}
	return true
}

func hasBound(t *Term, bound map[string]bool) bool {
	switch t.op {
	case "const":
		return bound[t.name]
	case "int", "bool":
		return false
	case "forall", "exists":
		return true
	}
	for _, a := range t.args {
		if hasBound(a, bound) {
			return true
		}
	}
	return false
}

// frameSideConditions collects select(mG, X) = select(mA, X[mG:=mA]) for every read through a
// replaced array in g. ok=false if some block term is not ground.
func frameSideConditions(g *Term, pairs map[string]string, bound map[string]bool, out *[]*Term, seen map[string]bool) bool {
	switch g.op {
	case "const", "int", "bool":
		return true
	case "!":
		return frameSideConditions(g.args[0], pairs, bound, out, seen)
	case "forall", "exists":
		nb := map[string]bool{}
		for k := range bound {
			nb[k] = true
		}
		for _, b := range g.bound {
			nb[b.name] = true
		}
		return frameSideConditions(g.args[0], pairs, nb, out, seen)
	}
	if g.op == "select" && g.args[0].op == "const" {
		if an, ok := pairs[g.args[0].name]; ok {
			x := g.args[1]
			if hasBound(x, bound) {
				return false
			}
			if !frameSideConditions(x, pairs, bound, out, seen) {
				return false
			}
			sub := map[string]*Term{}
			for gn, a2 := range pairs {
				sub[gn] = &Term{op: "const", name: a2, sort: g.args[0].sort}
			}
			// substitute array names by sort-correct constants
			xa := substituteArrays(x, pairs)
			ma := &Term{op: "const", name: an, sort: g.args[0].sort}
			eq := mk("=", SBool, mk("select", g.sort, g.args[0], x), mk("select", g.sort, ma, xa))
			if !seen[eq.String()] {
				seen[eq.String()] = true
				*out = append(*out, eq)
			}
			return true
		}
	}
	// a replaced array used other than as the array operand of a select: give up
	for i, a := range g.args {
		if a.op == "const" {
			if _, ok := pairs[a.name]; ok && !(g.op == "select" && i == 0) {
				return false
			}
		}
		if !frameSideConditions(a, pairs, bound, out, seen) {
			return false
		}
	}
	return true
}

func substituteArrays(t *Term, pairs map[string]string) *Term {
	switch t.op {
	case "const":
		if an, ok := pairs[t.name]; ok {
			return &Term{op: "const", name: an, sort: t.sort}
		}
		return t
	case "int", "bool":
		return t
	case "forall", "exists":
		return &Term{op: t.op, bound: t.bound, args: []*Term{substituteArrays(t.args[0], pairs)}, sort: t.sort}
	}
	args := make([]*Term, len(t.args))
	changed := false
	for i, a := range t.args {
		args[i] = substituteArrays(a, pairs)
		if args[i] != a {
			changed = true
		}
	}
	if !changed {
		return t
	}
	return &Term{op: t.op, args: args, sort: t.sort}
}

// tryFrame looks, for every conjunct of goal, for an assumption it is a framed copy of. Returns
// the quantifier-free side goal, or nil.
func tryFrame(pc []*Term, goal *Term) *Term {
	conj := []*Term{goal}
	if goal.op == "and" {
		conj = goal.args
	}
	var quant []*Term
	for _, t := range pc {
		if t.op == "forall" {
			quant = append(quant, t)
		}
	}
	var side []*Term
	seen := map[string]bool{}
	for _, g := range conj {
		if !hasQuantifier(g) {
			side = append(side, g)
			continue
		}
		matched := false
		// search the most recent assumptions first
		for i := len(quant) - 1; i >= 0; i-- {
			pairs := map[string]string{}
			if !frameMatch(quant[i], g, map[string]string{}, pairs) {
				continue
			}
			var conds []*Term
			if !frameSideConditions(g, pairs, map[string]bool{}, &conds, seen) {
				continue
			}
			side = append(side, conds...)
			matched = true
			break
		}
		if !matched {
			return nil
		}
	}
	return And(side...)
}
