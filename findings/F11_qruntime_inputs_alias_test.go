package qruntime_test

// Replay of finding F11 (property C08): qruntime.NewAdapter keeps the very slices returned by the
// controller's Settings() as its access-control lists (rruntime clones them). A queue controller
// that keeps (or reuses) the slice it returned can rewrite an element after registration and then
// reads a resource type it never declared as input.

import (
	"context"
	"testing"

	"go.uber.org/zap"
	"go.uber.org/zap/zaptest"
	"golang.org/x/time/rate"

	"github.com/cosi-project/runtime/pkg/controller"
	"github.com/cosi-project/runtime/pkg/controller/conformance"
	"github.com/cosi-project/runtime/pkg/controller/runtime/internal/adapter"
	"github.com/cosi-project/runtime/pkg/controller/runtime/internal/cache"
	"github.com/cosi-project/runtime/pkg/controller/runtime/internal/dependency"
	"github.com/cosi-project/runtime/pkg/controller/runtime/internal/qruntime"
	"github.com/cosi-project/runtime/pkg/controller/runtime/options"
	"github.com/cosi-project/runtime/pkg/resource"
	"github.com/cosi-project/runtime/pkg/state"
	"github.com/cosi-project/runtime/pkg/state/impl/inmem"
	"github.com/cosi-project/runtime/pkg/state/impl/namespaced"
)

type f11Controller struct {
	inputs []controller.Input
}

func (c *f11Controller) Name() string { return "F11Controller" }

func (c *f11Controller) Settings() controller.QSettings {
	return controller.QSettings{Inputs: c.inputs}
}

func (c *f11Controller) Reconcile(context.Context, *zap.Logger, controller.QRuntime, resource.Pointer) error {
	return nil
}

func (c *f11Controller) MapInput(context.Context, *zap.Logger, controller.QRuntime, controller.ReducedResourceMetadata) ([]resource.Pointer, error) {
	return nil, nil
}

func TestVerifF11(t *testing.T) {
	const ns = "default"

	ctx := t.Context()

	st := state.WrapCore(namespaced.NewState(inmem.Build))

	intRes := conformance.NewIntResource(ns, "int1", 1)
	strRes := conformance.NewStrResource(ns, "str1", "secret")

	if err := st.Create(ctx, intRes); err != nil {
		t.Fatal(err)
	}

	if err := st.Create(ctx, strRes, state.WithCreateOwner("SomeoneElse")); err != nil {
		t.Fatal(err)
	}

	depDB, err := dependency.NewDatabase()
	if err != nil {
		t.Fatal(err)
	}

	ctrl := &f11Controller{
		inputs: []controller.Input{{Namespace: ns, Type: conformance.IntResourceType, Kind: controller.InputQPrimary}},
	}

	a, err := qruntime.NewAdapter(ctrl, adapter.Options{
		Logger:        zaptest.NewLogger(t),
		State:         st,
		Cache:         cache.NewResourceCache(nil),
		DepDB:         depDB,
		RegisterWatch: func(resource.Namespace, resource.Type) error { return nil },
		RuntimeOptions: options.Options{
			ChangeRateLimit: rate.Inf,
		},
	})
	if err != nil {
		t.Fatal(err)
	}

	if _, err = a.Get(ctx, strRes.Metadata()); err == nil {
		t.Fatal("StrResource is not a declared input, read must be refused")
	}

	// the controller reuses its own slice; nothing is submitted to the runtime
	ctrl.inputs[0].Type = conformance.StrResourceType

	if _, err = a.Get(ctx, strRes.Metadata()); err == nil {
		t.Fatalf("StrResource was never declared as an input, but can be read after the controller rewrote its own slice")
	}
}
