package keystorage_test

// Replay of finding F10 (property C20): a serialized key storage whose slot map entry carries a
// key but no value unmarshals into a nil *KeySlot; the next key retrieval dereferences it and
// panics instead of reporting the alteration.

import (
	"testing"

	"github.com/cosi-project/runtime/pkg/keystorage"
)

func TestVerifF10(t *testing.T) {
	// storage_version = 1; key_slots = { "a": <no value> }
	data := []byte{0x08, 0x01, 0x12, 0x03, 0x0a, 0x01, 'a'}

	var ks keystorage.KeyStorage
	if err := ks.UnmarshalBinary(data); err != nil {
		t.Skipf("altered form rejected at unmarshal time: %v", err)
	}

	defer func() {
		if r := recover(); r != nil {
			t.Fatalf("key retrieval panicked on an altered serialized form: %v", r)
		}
	}()

	if _, err := ks.GetMasterKey("a", "some private key"); err == nil {
		t.Fatalf("key retrieval from an altered storage must fail")
	}
}
