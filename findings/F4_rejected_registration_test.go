package runtime_test

// Replay of finding F4 (property C17): a controller registration that is rejected half-way (its
// second output conflicts with an existing exclusive owner) leaves its first output registered in
// the dependency database. A later, perfectly valid registration of another controller for that
// first resource type is then refused, and the exported dependency graph lists an output of a
// controller that was never accepted.

import (
	"context"
	"testing"

	"go.uber.org/zap"
	"go.uber.org/zap/zaptest"

	"github.com/cosi-project/runtime/pkg/controller"
	"github.com/cosi-project/runtime/pkg/controller/runtime"
	"github.com/cosi-project/runtime/pkg/state"
	"github.com/cosi-project/runtime/pkg/state/impl/inmem"
	"github.com/cosi-project/runtime/pkg/state/impl/namespaced"
)

type f4Ctrl struct {
	name    string
	outputs []controller.Output
}

func (c *f4Ctrl) Name() string                 { return c.name }
func (c *f4Ctrl) Inputs() []controller.Input   { return nil }
func (c *f4Ctrl) Outputs() []controller.Output { return c.outputs }

func (c *f4Ctrl) Run(ctx context.Context, _ controller.Runtime, _ *zap.Logger) error {
	<-ctx.Done()

	return nil
}

func TestVerifF4(t *testing.T) {
	st := state.WrapCore(namespaced.NewState(inmem.Build))

	rt, err := runtime.NewRuntime(st, zaptest.NewLogger(t))
	if err != nil {
		t.Fatal(err)
	}

	excl := func(typ string) controller.Output {
		return controller.Output{Type: typ, Kind: controller.OutputExclusive}
	}

	// B owns Y
	if err = rt.RegisterController(&f4Ctrl{name: "B", outputs: []controller.Output{excl("Y")}}); err != nil {
		t.Fatal(err)
	}

	// A wants X and Y: rejected because of Y
	if err = rt.RegisterController(&f4Ctrl{name: "A", outputs: []controller.Output{excl("X"), excl("Y")}}); err == nil {
		t.Fatal("registration of A must be rejected")
	}

	// the rejected registration must have no effect on the graph ...
	graph, err := rt.GetDependencyGraph()
	if err != nil {
		t.Fatal(err)
	}

	for _, edge := range graph.Edges {
		if edge.ControllerName == "A" {
			t.Errorf("dependency graph lists an edge of the rejected controller A: %+v", edge)
		}
	}

	// ... and none on later registrations
	if err = rt.RegisterController(&f4Ctrl{name: "C", outputs: []controller.Output{excl("X")}}); err != nil {
		t.Errorf("valid registration of C refused after the rejected registration of A: %v", err)
	}
}
