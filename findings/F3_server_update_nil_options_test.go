package server_test

// Replay of finding F3 (property C11): an UpdateRequest without Options crashes the server
// (nil pointer dereference) instead of being served or rejected.

import (
	"context"
	"testing"

	"github.com/cosi-project/runtime/api/v1alpha1"
	"github.com/cosi-project/runtime/pkg/resource"
	"github.com/cosi-project/runtime/pkg/resource/protobuf"
	"github.com/cosi-project/runtime/pkg/state"
	"github.com/cosi-project/runtime/pkg/state/conformance"
	"github.com/cosi-project/runtime/pkg/state/impl/inmem"
	"github.com/cosi-project/runtime/pkg/state/impl/namespaced"
	"github.com/cosi-project/runtime/pkg/state/protobuf/server"
)

func TestVerifF3(t *testing.T) {
	_ = protobuf.RegisterResource(conformance.PathResourceType, &conformance.PathResource{})

	st := state.WrapCore(namespaced.NewState(inmem.Build))
	srv := server.NewState(st)

	r := conformance.NewPathResource("ns", "p")
	if err := st.Create(context.Background(), r); err != nil {
		t.Fatal(err)
	}

	pr, err := protobuf.FromResource(r)
	if err != nil {
		t.Fatal(err)
	}

	m, err := pr.Marshal()
	if err != nil {
		t.Fatal(err)
	}

	defer func() {
		if rec := recover(); rec != nil {
			t.Fatalf("server.Update panicked on a request without options: %v", rec)
		}
	}()

	_, _ = srv.Update(context.Background(), &v1alpha1.UpdateRequest{NewResource: m})
	_ = resource.VersionUndefined
}
