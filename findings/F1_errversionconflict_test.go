package inmem_test

// Replay of finding F1 (property C01): the conflict error built by ErrVersionConflict carries no
// resource, so classifying it with a namespace/type qualifier dereferences nil.
// Run (from /repo): go test -overlay <overlay.json> -vet=off -count=1 -run TestVerifF1 ./pkg/state/impl/inmem/

import (
	"testing"

	"github.com/cosi-project/runtime/pkg/resource"
	"github.com/cosi-project/runtime/pkg/state"
	"github.com/cosi-project/runtime/pkg/state/impl/inmem"
)

func TestVerifF1(t *testing.T) {
	md := resource.NewMetadata("ns", "T", "id", resource.VersionUndefined)
	err := inmem.ErrVersionConflict(md, resource.VersionUndefined, resource.VersionUndefined)

	defer func() {
		if r := recover(); r != nil {
			t.Fatalf("classification panicked: %v", r)
		}
	}()

	if !state.IsConflictError(err, state.WithResourceType("T")) {
		t.Fatalf("version conflict for type T not classified as conflict with type qualifier")
	}
}
