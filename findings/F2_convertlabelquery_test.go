package server_test

// Replay of finding F2 (property C11): a label term without a value crashes the server-side
// query conversion (index out of range) instead of yielding an error status.

import (
	"testing"

	"github.com/cosi-project/runtime/api/v1alpha1"
	"github.com/cosi-project/runtime/pkg/state/protobuf/server"
)

func TestVerifF2(t *testing.T) {
	defer func() {
		if r := recover(); r != nil {
			t.Fatalf("ConvertLabelQuery panicked on a value-less term: %v", r)
		}
	}()

	_, err := server.ConvertLabelQuery([]*v1alpha1.LabelTerm{{Key: "a", Op: v1alpha1.LabelTerm_EQUAL}})
	if err == nil {
		t.Fatalf("a malformed term must be rejected with an error status")
	}
}
