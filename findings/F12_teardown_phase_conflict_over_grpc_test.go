package protobuf_test

// Replay of finding F12 (property C11): the error class of a Teardown that fails with a phase
// conflict differs between the wrapped state and the same state reached through gRPC. The Get+Update
// fallback of Teardown reports a phase conflict when the resource turns tearing-down between its two
// reads; the server's Teardown handler has no case for that class (the Update handler has one), so the
// error travels as FailedPrecondition and the client rebuilds a plain conflict: direct callers see
// IsPhaseConflictError == true, remote callers see false.

import (
	"context"
	"net"
	"path/filepath"
	"sync/atomic"
	"testing"

	"google.golang.org/grpc"
	"google.golang.org/grpc/credentials/insecure"

	"github.com/cosi-project/runtime/api/v1alpha1"
	"github.com/cosi-project/runtime/pkg/resource"
	"github.com/cosi-project/runtime/pkg/state"
	"github.com/cosi-project/runtime/pkg/state/conformance"
	"github.com/cosi-project/runtime/pkg/state/impl/inmem"
	"github.com/cosi-project/runtime/pkg/state/impl/namespaced"
	"github.com/cosi-project/runtime/pkg/state/protobuf/client"
	"github.com/cosi-project/runtime/pkg/state/protobuf/server"
)

// f12Racing tears the resource down (as another party would) right before the second Get of a
// Teardown call, i.e. between the read of Teardown itself and the read of its conflict-retrying update.
type f12Racing struct {
	state.CoreState

	gets atomic.Int32
}

func (s *f12Racing) Get(ctx context.Context, ptr resource.Pointer, opts ...state.GetOption) (resource.Resource, error) { //nolint:ireturn
	if s.gets.Add(1) == 2 {
		cur, err := s.CoreState.Get(ctx, ptr)
		if err == nil {
			upd := cur.DeepCopy()
			upd.Metadata().SetPhase(resource.PhaseTearingDown)

			if err = s.CoreState.Update(ctx, upd, state.WithExpectedPhaseAny()); err != nil {
				return nil, err
			}
		}
	}

	return s.CoreState.Get(ctx, ptr, opts...)
}

func f12Class(err error) string {
	switch {
	case err == nil:
		return "no error"
	case state.IsNotFoundError(err):
		return "not found"
	case state.IsOwnerConflictError(err):
		return "owner conflict"
	case state.IsPhaseConflictError(err):
		return "phase conflict"
	case state.IsConflictError(err):
		return "conflict"
	default:
		return "other"
	}
}

func TestVerifF12(t *testing.T) {
	ctx := t.Context()

	// direct
	direct := &f12Racing{CoreState: namespaced.NewState(inmem.Build)}
	res := conformance.NewPathResource("default", "f12")

	if err := direct.Create(ctx, res); err != nil {
		t.Fatal(err)
	}

	_, directErr := state.WrapCore(direct).Teardown(ctx, res.Metadata())

	// the same through gRPC
	remoteInner := &f12Racing{CoreState: namespaced.NewState(inmem.Build)}

	if err := remoteInner.Create(ctx, conformance.NewPathResource("default", "f12")); err != nil {
		t.Fatal(err)
	}

	sock := filepath.Join(t.TempDir(), "f12.sock")

	l, err := (&net.ListenConfig{}).Listen(ctx, "unix", sock)
	if err != nil {
		t.Fatal(err)
	}

	grpcServer := grpc.NewServer()
	v1alpha1.RegisterStateServer(grpcServer, server.NewState(remoteInner))

	go grpcServer.Serve(l) //nolint:errcheck

	defer grpcServer.Stop()

	conn, err := grpc.NewClient("unix://"+sock, grpc.WithTransportCredentials(insecure.NewCredentials()))
	if err != nil {
		t.Fatal(err)
	}

	defer conn.Close() //nolint:errcheck

	remote := state.WrapCore(client.NewAdapter(v1alpha1.NewStateClient(conn)))

	_, remoteErr := remote.Teardown(ctx, res.Metadata())

	t.Logf("direct: %s (%v)", f12Class(directErr), directErr)
	t.Logf("remote: %s (%v)", f12Class(remoteErr), remoteErr)

	if f12Class(directErr) != f12Class(remoteErr) {
		t.Fatalf("error class differs: wrapped state reports %q, the same state through gRPC reports %q", f12Class(directErr), f12Class(remoteErr))
	}
}
