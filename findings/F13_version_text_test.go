package resource

// Replay of finding F13 (property C18): the text form of a version did not parse back for versions
// of 2^63 and above - Version.String writes the unsigned number, ParseVersion read it with the signed
// parser. (In-package: the counter of a Version is unexported.)

import "testing"

func TestVerifF13(t *testing.T) {
	for _, n := range []uint64{1, 1<<63 - 1, 1 << 63, 1<<64 - 1} {
		v := Version{uint64: &n}

		back, err := ParseVersion(v.String())
		if err != nil {
			t.Fatalf("version %d: text form %q does not parse back: %v", n, v.String(), err)
		}

		if !back.Equal(v) {
			t.Fatalf("version %d: text form %q parses back to %s", n, v.String(), back)
		}
	}
}
