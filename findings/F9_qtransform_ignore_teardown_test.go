package qtransform_test

// Replay of finding F9 (property C07): with WithIgnoreTeardownWhile an input that is already
// tearing down when the controller first sees it (and still carries the "while" finalizer) is
// reconciled through reconcileRunning. The controller finalizer is only added to inputs in phase
// running, so the output is created while the input does not carry the controller's finalizer;
// once the foreign finalizer is gone the input can be destroyed with the output still there.

import (
	"context"
	"testing"
	"time"

	"github.com/stretchr/testify/assert"
	"github.com/stretchr/testify/require"

	"github.com/cosi-project/runtime/pkg/controller/generic/qtransform"
	"github.com/cosi-project/runtime/pkg/controller/runtime"
	"github.com/cosi-project/runtime/pkg/resource"
	"github.com/cosi-project/runtime/pkg/resource/rtestutils"
	"github.com/cosi-project/runtime/pkg/state"
)

func TestVerifF9(t *testing.T) {
	setup(t, func(ctx context.Context, st state.State, rt *runtime.Runtime) {
		// the input exists, holds a foreign finalizer and is tearing down before the controller starts
		in := NewA("9", ASpec{})
		require.NoError(t, st.Create(ctx, in))
		require.NoError(t, st.AddFinalizer(ctx, in.Metadata(), "extra-finalizer"))

		_, err := st.Teardown(ctx, in.Metadata())
		require.NoError(t, err)

		require.NoError(t, rt.RegisterQController(NewABCController(qtransform.WithIgnoreTeardownWhile("extra-finalizer"))))

		// the controller creates the output ...
		rtestutils.AssertResources(ctx, t, st, []resource.ID{"transformed-9"}, func(*B, *assert.Assertions) {})

		// ... so its finalizer must be on the input by now
		cur, err := st.Get(ctx, in.Metadata())
		require.NoError(t, err)

		if !cur.Metadata().Finalizers().Has("QTransformABCController") {
			// consequence: the input can disappear while the output derived from it still exists
			require.NoError(t, st.RemoveFinalizer(ctx, in.Metadata(), "extra-finalizer"))

			destroyErr := st.Destroy(ctx, in.Metadata())

			time.Sleep(200 * time.Millisecond)

			_, outErr := st.Get(ctx, NewB("transformed-9", BSpec{}).Metadata())

			t.Fatalf("output transformed-9 exists while input 9 (phase %s, finalizers %v) does not carry the controller finalizer; "+
				"destroy of the input returned %v, output still present afterwards: %v",
				cur.Metadata().Phase(), *cur.Metadata().Finalizers(), destroyErr, outErr == nil)
		}
	})
}
