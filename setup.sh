#!/bin/sh
# Builds the verifier offline from files on disk only.
set -e
cd "$(dirname "$0")"
export GOFLAGS=-mod=mod GOPROXY=off GOSUMDB=off GOTOOLCHAIN=local
export PATH=/opt/veriftools/go1.26.8/bin:$PATH
mkdir -p bin evidence
(cd govc && go build -o ../bin/govc .)
echo "govc built: $(./bin/govc 2>&1 | head -1)"
