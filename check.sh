#!/bin/sh
# usage: check.sh <property id> <quick|thorough>
# Rebuilds nothing itself except the verifier binary when missing; the VCs are
# regenerated from /repo's current working tree (build tag verif) on every run.
cd "$(dirname "$0")"
export GOFLAGS=-mod=mod GOPROXY=off GOSUMDB=off GOTOOLCHAIN=local
export PATH=/opt/veriftools/go1.26.8/bin:$PATH
[ -x bin/govc ] || ./setup.sh >/dev/null
REPO=${VERIF_REPO:-/repo}
exec ./bin/govc check -property "$1" -tier "${2:-${VERIF_TIER:-quick}}" -repo "$REPO" -verif "$(pwd)"
