#!/bin/bash
# usage: confirm_seed.sh <worktree> <seed index>   (worktree has seed<i>.patch.diff, seed<i>_demo_test.go, seed<i>.meta.txt)
# Confirms: with the patch the demo fails and the touched packages' existing tests pass; without it the demo passes.
export GOFLAGS=-mod=mod GOPROXY=off GOSUMDB=off GOTOOLCHAIN=local PATH=/opt/veriftools/go1.26.8/bin:$PATH
WT=$1; I=$2
cd "$WT" || exit 2
git checkout -q -- . 2>/dev/null
PKG=$(grep -i "package dir" seed$I.meta.txt | head -1 | sed "s/.*: *//" | awk "{print \$1}" | sed "s#^\./##; s#/\$##")
RUN=$(grep -o "Test[A-Za-z0-9_]*" seed$I.meta.txt | head -1)
[ -d "$PKG" ] || { echo "bad package dir '$PKG'"; exit 2; }
cp seed${I}_demo_test.go "$PKG/zz_seed${I}_demo_test.go"
echo "== clean tree: demo must pass"
go test -count=1 -run "$RUN" "./$PKG/" 2>&1 | tail -3
CLEAN=${PIPESTATUS[0]}
git apply seed$I.patch.diff || { echo "patch does not apply"; rm -f "$PKG/zz_seed${I}_demo_test.go"; exit 2; }
echo "== build"
go build ./... 2>&1 | tail -3
echo "== mutated tree: demo must fail"
go test -count=1 -run "$RUN" "./$PKG/" 2>&1 | tail -5
MUT=${PIPESTATUS[0]}
rm -f "$PKG/zz_seed${I}_demo_test.go"
echo "== mutated tree: existing tests of touched packages must pass"
TOUCHED=$(git diff --name-only | xargs -n1 dirname | sort -u | sed 's#^#./#; s#$#/#' | tr '\n' ' ')
go test -count=1 $TOUCHED 2>&1 | tail -4
EXIST=${PIPESTATUS[0]}
git checkout -q -- .
echo "RESULT clean_demo=$CLEAN mutated_demo=$MUT existing_tests=$EXIST  (want 0 / non-zero / 0)"
