#!/bin/sh
# usage: replay_overlay.sh <test file> <package dir relative to repo> <run regex> [repo]
# Injects the test file into the package with go test -overlay (nothing is written into the repo).
set -e
export GOFLAGS=-mod=mod GOPROXY=off GOSUMDB=off GOTOOLCHAIN=local
export PATH=/opt/veriftools/go1.26.8/bin:$PATH
REPO=${4:-/repo}
TMP=$(mktemp -d)
trap 'rm -rf "$TMP"' EXIT
printf '{"Replace": {"%s/%s/zz_verif_replay_test.go": "%s"}}\n' "$REPO" "$2" "$(readlink -f "$1")" > "$TMP/ov.json"
cd "$REPO" && go test -overlay "$TMP/ov.json" -vet=off -count=1 -timeout 120s -run "$3" "./$2/"
