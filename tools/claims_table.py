# Edited by hand; consumed by mkmanifest.py.
COMMON = ("Assumptions common to all checks: mathematical integers (no overflow), memory well-typed, scheduling/termination not modelled, "
          "extern contracts in contracts/extern/*.spec and every 'trusted'/'assume'/'assume_at_acquire' clause in the //@ files are assumed "
          "(listed in the evidence); quick tier may discharge a VC through the committed proof cache (cache/proofs.txt, keyed by the normalised VC text; "
          "the thorough tier re-solves everything). ")
claim("C01",
      "Proof, for all inputs, of the sequential specification of the in-memory collection's Get/Create/Update/Destroy inside one critical section "
      "(success iff the spec's conditions with check precedence not-found/owner/version/phase, version+1, creation time kept, whole-view frame, failure leaves "
      "storage and log untouched, write-back), of the error constructors' classes, the conflict-error resource invariant and the Is*Error predicates' panic-freedom; "
      "namespaced.State hands every caller the one state instance published for a namespace (also under a first-use race) and routes each of its eight operations, unchanged, to the instance of the namespace the resource / pointer / kind names.",
      COMMON + "The step 'one critical section per operation implies linearizability' is cited, not machine-checked. inmem.State routing, List, "
      "and remote states are not under contract. Environment assumptions: caller-isolation and copy-private (assume_at_acquire).",
      "DESIGN.md §6 C01")
claim("C02",
      "Proof of the ring-buffer/log representation invariant through publish (growth and wrap), of NewResourceCollection establishing it, and of the delivery "
      "goroutines: Watch delivers exactly the next event of the watched ID with none skipped (per-iteration obligations, induction over iterations cited), "
      "Errored only on overrun; WatchAll copies exactly writePos-pos events taken from the ring positions of log[pos..writePos) and advances pos.",
      COMMON + "Not decided: eventual delivery (wake-ups). WatchAll goroutine verified from its main loop on (start_at_loop; bootstrap prefix not verified); "
      "the final composition window-copy+lap-index+ring => events[i]==log[pos+i] is cited. filterInPlaceMutating trusted.",
      "DESIGN.md §6 C02")
claim("C03",
      "Proof that Destroy removes a resource only if its finalizer set is empty in the same critical section (and owner matches), fails with the conflict class otherwise and leaves the state untouched; "
      "that Teardown answers readiness from the latest value it has seen; that WatchForCondition.Matches implements each filter (event types, resource present, finalizers empty, phases) and WatchFor puts "
      "every event it receives to it, goes on waiting only after a clean 'no' and returns the resource of the event that matched; that waitFinalizersEmpty skips no Destroyed event and no Created/Updated event "
      "showing an empty finalizer set, reports 'gone' only for a Destroyed event, and TeardownAndDestroy reports success only after that event or a successful Destroy (and destroys at once only when Teardown "
      "said ready); that the goroutine behind a teardown-bound context goes on waiting only after an event that is neither tearing-down, Destroyed nor Errored and that each of its exits has exactly one of those reasons "
      "(or the parent context being done).",
      COMMON + "Per-iteration obligations on the helpers' event loops (at backedge / at return); that a watch delivers the state at call time as its first event is C02's subject; channel events of type "
      "Created/Updated are assumed to carry a resource; ctx.Err() is assumed non-nil after Done fired. Liveness ('always completes when finalizers end up empty') is outside this family: what is proved is that no deciding event is skipped.",
      "DESIGN.md §6 C03")
claim("C08",
      "Proof, for all declared input/output sets and targets, that the access predicates equal their specification (loops with invariants), that every delegated "
      "call of the controller state adapter is dominated by the matching predicate (assertions at call sites), that a rejected operation performs no delegated call, "
      "and that the input declaration accepted by rruntime UpdateInputs is stored as a private snapshot (fresh slice, same elements) while a refused update leaves the declared inputs as they were "
      "(an unsupported input kind is refused before anything is changed; the watch-filter bookkeeping writes nothing but the filter map).",
      COMMON + "owned.State is under contract: every write it issues carries the State's own owner unless the caller asked for no owner (Create/Modify) or named another owner (Teardown/Destroy), asserted at the delegated call over "
      "the owner the option passed carries (specification functions defined by the option constructors, whose closures are proved to store that owner); assumed: a State was built by New over an existing state. "
      "The runtime cache is used through trusted delegation-counter contracts; CleanupOutputs is not under contract yet; that the store refuses a foreign owner is C01.",
      "DESIGN.md §6 C08")
claim("C10",
      "Proof of the ordering obligations in the collection: a backing-store error is returned with storage and log untouched, success implies the store call succeeded "
      "(ghost flags lastPutOK/lastDestroyOK), memory is changed and the event published only after the store call returned nil; the zstd decoder of the compression wrapper is built only from options that do not limit what it accepts "
      "(precondition of the assumed NewReader contract), so that whatever the unlimited encoder wrote can be read back after a restart.",
      COMMON + "inmem.State.loadStore marks the state loaded only after the backing store's Load returned nil and reports a failed load. bbolt's crash atomicity, what the load injects and the bolt store itself are not under contract.",
      "DESIGN.md §6 C10")
claim("C11",
      "No-panic sweep: every unary server handler (Get/List/Create/Update/Destroy/Teardown/TeardownAndDestroy), ConvertLabelQuery/ConvertIDQuery, mapEvent and "
      "marshalResource are proved panic-free for every request value (nil sub-messages, empty slices, any enum value); label-query translation keeps inversion per "
      "term; the client's Teardown and TeardownAndDestroy have evaluated all caller options before they choose between the native call and the fallback; error classes: every unary server handler turns the class of the "
      "wrapped state's error (not-found, owner conflict, phase conflict, conflict, tested in this order) into its status code, and every client method turns the status code back into that class (ghost locals record the error "
      "being classified; status.Error/status.Code are tied by an assumed specification function); the write-back helper touches only the caller's metadata. Finding F12 (phase conflict of Teardown lost over the wire) was found by these clauses and repaired.",
      COMMON + "Preconditions: request pointer non-nil, repeated message fields hold no nil elements (protobuf decoder). Protobuf codec functions trusted. "
      "The composition 'client after server is the identity on classes' is the conjunction of the two tables (cited). gRPC stubs assumed to write none of the caller's memory. "
      "Write-back equality, List, and server.Watch are not under contract yet.",
      "DESIGN.md §6 C11")
claim("C12",
      "Proof that encode/decode of bookmarks are inverse and total, that Watch and WatchAll accept a bookmark exactly inside the retained window (both directions, "
      "recent bookmarks always accepted), resume at position+1 with nothing overwritten, reject with the invalid-bookmark class, and start tails at the exact position (kind watch) resp. on an event of the watched resource unless the retained history is exhausted (single-resource watch).",
      COMMON + "Assumes the history configuration is valid (1<=capacity, 0<=gap<=capacity).",
      "DESIGN.md §6 C12")
claim("C19",
      "Proof that what Create/Update put into the store is a fresh deep copy (never the caller's object), that Get returns a fresh deep copy, that the written-back "
      "metadata equals the stored one, and that the copy-on-write containers (Finalizers.Add/Remove/Set, kv.KV.Set/Delete and the temporary view behind kv.KV.Do) never write the array or map they were "
      "handed and put every change into a fresh one.",
      COMMON + "DeepCopy contract assumed for resource implementations; List, watch bootstrap and the runtime cache are not under contract yet.",
      "DESIGN.md §6 C19")
claim("C04",
      "Proof for the conflict-retrying UpdateWithConflicts against ghost counters maintained by the CoreState interface contracts: an error return means no "
      "successful Update was issued, at most one successful Update per call, an owner or phase conflict returned by Update is never retried into success, "
      "and the expected-phase check happens on the value just read before anything else (also when the change is a no-op); Teardown answers its readiness from "
      "the latest value it has seen (the one returned by the retrying update, not the stale first read); ModifyWithResult reports a refused Create as an error "
      "instead of starting over with an already mutated object.",
      COMMON + "Environment as the property states (no concurrent Destroy/re-create). AddFinalizer/RemoveFinalizer/Modify are proved to be thin layers (an error means no write, at most one write, the AddFinalizer mutator leaves every requested finalizer in the set); "
      "the safe.* wrappers are not under contract; the Is*Error classification functions are tied to specification functions by definitional clauses.",
      "DESIGN.md §6 C04")
claim("C18",
      "Proof of the local framing logic of the compression and encryption wrappers for every byte string (marker bytes, size threshold, unknown compressor id "
      "rejected, version byte, length guard, all index/slice expressions in bounds) that phase and version text forms parse back, that the zstd decoder is built from non-limiting options, and that the wire form of a resource's metadata is built field by field (scalar fields as they are, version and phase as text, both timestamps always present) and read back the same way by NewMetadataFromProto (scalars as they are, version and phase through their parsers, timestamps through the well-known-type accessor).",
      COMMON + "zstd, AES-GCM and the underlying marshaler are used through assumed interface contracts; protobuf/YAML codecs, metadata<->proto mapping, version text "
      "forms are under contract (ParseVersion parses back what Version.String writes, over an assumed decimal-text specification of strconv; finding F13, versions >= 2^63, repaired); timestamps and decoder totality of third-party libraries are not under contract.",
      "DESIGN.md §6 C18")
claim("C07",
      "Proof, per function, of the write-ordering obligations of the transform (loop bodies of processInputs/cleanupOutputs, reconcileTearingDownInput), queue transform, cleanup and destroy controllers against a ghost trace maintained by the "
      "owned.Writer interface contracts: the controller's finalizer is on a running input (as read, or AddFinalizer just succeeded) before Modify can create the output, "
      "an output is destroyed only after Teardown reported it ready (or it was read tearing-down with an empty finalizer set), "
      "the input finalizer is removed only after Destroy of that output succeeded or the output was reported not found, a cleanup controller removes its finalizer "
      "only after its removal handler returned nil on a tearing-down input (a combined handler returns nil iff every part did), the destroy controller destroys only "
      "tearing-down, unowned, finalizer-free resources. Known finding F9 (known_findings.txt): the finalizer-before-output obligation fails for tearing-down inputs "
      "reconciled as running under the ignore-teardown options; replayed on the real code, reported as KNOWN-FINDING.",
      COMMON + "Per-reconcile obligations; the induction over the history of reconciles (and 'consequently the input never disappears first') is cited, and the store's own "
      "refusal to destroy with finalizers is C03. transform.Controller iterates with range-over-func: the obligations are stated per iteration on the loop-body functions go/ssa makes of them (finalizer on the input before WriterModify; Destroy only after a ready Teardown; "
      "an input finalizer stays scheduled for release under an output's ID only if that output is gone; release scheduled only after the removal handler returned nil), the loops' own induction and the final RemoveFinalizer loop are not; "
      "assumed: the iterator calls the body only while the loop is active, user callbacks do not rewire the controller. Not under contract: cleanup.RemoveOutputs/HasNoOutputs handlers. Writer/Reader/handler implementations are "
      "represented by their interface contracts.",
      "DESIGN.md §6 C07")
claim("C20",
      "Proof that every key retrieval path (GetMasterKey, AddKeySlot, DeleteKeySlot through getKey) recomputes the HMAC over all slots and compares it (ghost "
      "counters written by hashSlots/verifyKeySlots; the comparison covers the full length of both) before returning a key, fails without returning a key when the comparison fails or the slot is absent, "
      "is read-only on the storage, and that no step dereferences a nil slot of an altered serialized form; and of the slot-set rules: the last slot is never "
      "deleted, an existing slot is never overwritten, every other slot is kept by add/delete, a second initialisation is refused, and the stored tag is the "
      "digest recomputed after the slot change.",
      COMMON + "PGP encryption, HMAC-SHA256, constant-time compare and the generated protobuf getters are used through assumed contracts, so 'recovers the same master "
      "key' and 'any alteration is detected' are proved only up to those contracts (the digest is an uninterpreted result of the hash interface); that the HMAC "
      "binds slot ids unambiguously (concatenation without separators) is not claimed; marshal/unmarshal round trip is not under contract.",
      "DESIGN.md §6 C20")
claim("C15",
      "Proof for the per-kind cache handler (get, list, put, remove, append, len, contextWithTeardown): every element of the cached list is a non-nil resource with "
      "metadata after every operation (monitor invariant under the handler's mutex), every index derived from a binary search is in bounds, get returns a resource "
      "with the requested ID that is a fresh deep copy, list returns only items that went through the copying map step, a teardown-bound context is cancelled on the "
      "spot only when the resource is absent or already tearing down, a waiter channel already registered for an ID is kept, list works on a private "
      "snapshot taken under the lock, put of a tearing-down resource and remove of any resource close and unregister the waiter of that ID (put of a running one keeps it), and the goroutine behind a teardown-bound "
      "context writes nothing (the waiter registry is shared).",
      COMMON + "Only the contract-decidable, per-call part of C15 is claimed. Not decided: blocking until bootstrapped, never-going-backwards, coherence with "
      "notifications and equality with uncached reads at quiescence (history/liveness statements), ResourceCache dispatch, processEvents. The results of "
      "slices.BinarySearchFunc are assumptions at each call site and the sortedness of the list they rely on is NOT proved (the shifted-array obligations of "
      "put/remove did not discharge reliably and were left out of the claim rather than kept as flaky alarms); xslices.Map applying DeepCopy is an assumption.",
      "DESIGN.md §6 C15")
claim("C17",
      "Proof for the dependency database: AddControllerOutput keeps the monitor invariant 'no type is claimed both exclusively and shared, shared lists are non-empty', "
      "refuses an exclusive claim on a type that has any claim and any claim on an exclusively held type, records an accepted exclusive claim for exactly that "
      "controller, changes no other type, and changes nothing when it refuses; Add/DeleteControllerInput change only the named controller's list and nothing when they "
      "refuse, with all index arithmetic of the +/-1 neighbourhood scan in bounds, and an input whose namespace/type/ID equals a stored one is refused (loop "
      "invariant over the scan; that binary search lands next to such an input is an assumption); GetControllerInputs and GetDependentControllers return copies; rruntime UpdateInputs refuses an unsupported input kind before any database change. "
      "rruntime/qruntime NewAdapter carry 'a rejected registration performed no database change' over the ghost counter of accepted changes: this obligation FAILS "
      "and is the known finding F4 (replayed on the real code).",
      COMMON + "Not under contract: that a controller's input list is sorted and free of conflicting keys (the neighbourhood scan relies on it), Export, "
      "GetControllerOutputs, notification routing in runtime.go, UpdateInputs' merge result. The results of slices.BinarySearch(Func) are assumed only to be in range.",
      "DESIGN.md §6 C17")
claim("C13",
      "Proof for the client-side watch adapter: its receive closure re-establishes a watch only when retries are enabled and a bookmark has been seen, always with "
      "StartFromBookmark equal to the remembered bookmark, with BootstrapContents, BootstrapBookmark and TailEvents cleared and with the selection of the original request (namespace, type, ID, ID query, label query, aggregation) unchanged (call-site assertions at the Watch "
      "call inside the retry loop, loop invariant over the retry state), returns a message only when one was received; the delivery loop keeps the remembered "
      "bookmark equal to the bookmark of the last event converted (loop invariant) and is panic-free for every decoded message.",
      COMMON + "Environment assumptions (listed as assume_result clauses): a context whose Done channel fired reports a non-nil error; decoded WatchResponse messages "
      "contain no nil event entries; gRPC stream and client stub contracts. Not decided: that the server's resume semantics (C12) compose with this into 'no gap, "
      "no duplicate' end to end, the discarded first response after a resume, exhaustion of the backoff, mapping of FailedPrecondition to the invalid-bookmark class "
      "(exercised by the code but not stated as a postcondition), server.Watch.",
      "DESIGN.md §6 C13")
claim("C09",
      "Proof of per-item exclusion in the reconcile queue's event loop, for all interleavings of Put / Get / Release and every key/value type (generic code verified "
      "over its type parameters): the loop invariant of queue.Run says that no key is both in flight (onHold) and pending (pqueue), that neither container holds a "
      "key twice and that the two containers stay separate objects; it is established on entry and preserved by every select case (hand-out, timer, release with "
      "or without requeue and with a parked notification, put of a fresh or an in-flight key). Underneath, the containers: SliceSet never holds an item twice, "
      "Add/Remove are exact; PriorityQueue never holds a key twice, Push replaces or keeps the entry of a key, reports 'added' iff the key was new, every key "
      "afterwards was there before or is the pushed one, Pop removes exactly the head; Peek/Len are panic-free; an Item marks itself released on its first "
      "Requeue/Release; a notification is parked only for a key that is in flight (loop invariant [parked-only-while-in-flight]: a release always flushes the parked entry of its key) and a Put for an in-flight key leaves the value of that Put parked ([parked-value-is-the-most-recent]); "
      "one pass of the qruntime worker has forgotten the item's backoff state whenever the reconcile did not fail, with or without a requeue interval.",
      COMMON + "Not decided: coalescing to the most recent *value* for keys that are not in flight (the value then lives in the priority queue, whose contracts speak about keys), that a parked notification is re-delivered after release (a liveness flavour: the code path "
      "is under the invariant, the 'eventually delivered' is not), the reported length (atomic counter, not modelled), ordering by release time inside "
      "PriorityQueue (results of slices.IndexFunc/BinarySearchFunc for the closures used are assumptions at the call sites), timers and the growth of the backoff (time not "
      "modelled; ResettableTimer trusted frames; the exponential back-off library assumed).",
      "DESIGN.md §6 C09")
claim("C14",
      "Proof of the selector semantics as one function: Labels.Matches is pinned down operator by operator for every label map and term (existence, equality, "
      "set membership, lexical < and <=, inversion, missing labels never satisfy a comparison and satisfy an inverted non-comparison, empty value lists), "
      "LabelQuery.Matches is exactly the AND of its terms and LabelQueries.Matches exactly the OR of its queries (loops with invariants; empty query and empty "
      "list match everything); the server-side translation of label queries applies inversion per term (C11 assertions); the event filter of the kind watch "
      "passes Created/Destroyed events of selected resources only, turns an update into the selection into Created and one out of it into Destroyed (both without "
      "Old), passes updates inside it unchanged and drops updates outside it.",
      COMMON + "Numeric comparison with unit suffixes (compare.GetNumbers) is string parsing and trusted; IDQuery.Matches (regular expressions) trusted. Not under "
      "contract: that List and the watch apply the filter to every resource/event (collection.List sorts its result with sort.Slice; filterInPlaceMutating, which "
      "applies the event filter to each event, is trusted), the runtime cache list, the client-side query translation. selected(r) abstracts the selector "
      "closure as a function of the resource (definitional clause). An operator outside the "
      "enumeration makes Matches panic by design (may_panic).",
      "DESIGN.md §6 C14")
NOT_BUILT = "not built yet in this round (engine in progress); see DESIGN.md §6 for the planned contracts"
na("C05", "'every committed change eventually makes the controller reconcile' is a liveness statement over schedules and channel deliveries; its safety skeleton "
   "(a non-blocking send on a capacity-1 channel keeps one wake-up pending; the dedup map bounced between two goroutines) is about channel semantics and goroutine "
   "interleavings, which function contracts over a sequential body do not express. No partial claim is made.")
na("C06", "convergence at quiescence is a liveness/fixpoint property of the whole system; no function contract expresses 'eventually'. Its safety skeleton is C07.")
na("C16", "restart/backoff timing, isolation between goroutines and leak-free shutdown are statements about time and goroutine life-cycles (and recover), not pre/postconditions of a call.")
