# Edited by hand; consumed by mkmanifest.py.
claim("C12",
      "Proof of the bookmark codec contracts on the real encodeBookmark/decodeBookmark: malformed and foreign bookmarks rejected, decode is the inverse of encode for every int64 position, every accepted bookmark is well formed; panic-freedom of both for every byte string.",
      "Assumes the extern contracts of slices.Equal/Clone and binary.BigEndian (std.spec), the cookie being a fixed 8-byte value per process, mathematical integers. Acceptance-window obligations of Watch/WatchAll are being added.",
      "DESIGN.md §6 C12")
NOT_BUILT = "not built yet in this round (engine in progress); see DESIGN.md §6 for the planned contracts"
for p in ["C01","C02","C03","C04","C05","C07","C08","C09","C10","C11","C13","C14","C15","C17","C18","C19","C20"]:
    na(p, NOT_BUILT)
na("C06", "convergence at quiescence is a liveness/fixpoint property of the whole system; no function contract expresses 'eventually'. Its safety skeleton is C07.")
na("C16", "restart/backoff timing, isolation between goroutines and leak-free shutdown are statements about time and goroutine life-cycles (and recover), not pre/postconditions of a call.")
