#!/bin/bash
# Must-fail corpus: applies each mutant of selftest/mutants.tsv to /repo, runs the property's quick
# check, expects exit 1 and the named obligation among the violations, and reverts.
cd "$(dirname "$0")/.."
git -C /repo diff --quiet || { echo "/repo working tree not clean"; exit 2; }
FAILS=0
# the mutant runs rewrite evidence/<id>.json: keep the clean ones
EVSAVE=$(mktemp -d); cp -a evidence/. "$EVSAVE"/
while IFS=$'\t' read -r NAME PROP FILE SED EXPECT; do
  case "$NAME" in \#*|"") continue;; esac
  [ -n "$1" ] && [ "$1" != "$NAME" ] && continue
  sed -i "$SED" "/repo/$FILE"
  if git -C /repo diff --quiet; then echo "MUTANT $NAME: sed did not change anything"; FAILS=$((FAILS+1)); continue; fi
  ./check.sh $PROP quick > /tmp/selftest_$$.log 2>&1; RC=$?
  git -C /repo checkout -- .
  if [ $RC -eq 1 ] && grep -qF "$EXPECT" /tmp/selftest_$$.log; then echo "MUTANT $NAME ($PROP): detected by $EXPECT"; else echo "MUTANT $NAME ($PROP): NOT detected as expected (exit $RC)"; grep "obligation" /tmp/selftest_$$.log | head -3; FAILS=$((FAILS+1)); fi
done < selftest/mutants.tsv
rm -f /tmp/selftest_$$.log
rm -rf evidence; mkdir -p evidence; cp -a "$EVSAVE"/. evidence/; rm -rf "$EVSAVE"
echo "selftest: $FAILS failures"; [ $FAILS -eq 0 ]
