#!/usr/bin/env python3
"""Print a (minimised) unsat core of the assertions of an .smt2 file (debug aid)."""
import sys, subprocess
src = open(sys.argv[1]).read().split('\n')
if ';;;; VARIANT ;;;;' in src:
    src = src[:src.index(';;;; VARIANT ;;;;')]
head = [l for l in src if not l.startswith('(assert') and not l.startswith('(check-sat') and not l.startswith('(get-model') and 'produce-models' not in l]
asserts = [l for l in src if l.startswith('(assert')]
out = ['(set-option :produce-unsat-cores true)', '(set-option :smt.core.minimize true)'] + head
for i, a in enumerate(asserts):
    out.append('(assert (! %s :named a%d))' % (a[len('(assert '):-1], i))
out += ['(check-sat)', '(get-unsat-core)']
open('/tmp/core.smt2', 'w').write('\n'.join(out))
r = subprocess.run(['z3', '-T:30', '/tmp/core.smt2'], capture_output=True, text=True).stdout
print(r.split('\n')[0])
import re
ids = [int(x) for x in re.findall(r'a(\d+)', r.split('\n', 1)[1] if '\n' in r else '')]
for i in sorted(ids):
    print(i, asserts[i][:int(sys.argv[2]) if len(sys.argv) > 2 else 400])
