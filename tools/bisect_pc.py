#!/usr/bin/env python3
"""Given an .smt2 query whose assertions are contradictory, find the shortest unsat prefix (debug aid)."""
import sys, subprocess
src = open(sys.argv[1]).read().split('\n')
if ';;;; VARIANT ;;;;' in src:
    src = src[:src.index(';;;; VARIANT ;;;;')]
head = [l for l in src if not l.startswith('(assert') and not l.startswith('(check-sat') and not l.startswith('(get-model')]
asserts = [l for l in src if l.startswith('(assert')]
def unsat(n):
    txt = '\n'.join(head + asserts[:n] + ['(check-sat)'])
    open('/tmp/bisect.smt2', 'w').write(txt)
    out = subprocess.run(['z3', '-T:5', '/tmp/bisect.smt2'], capture_output=True, text=True).stdout.split('\n')[0]
    return out == 'unsat'
lo, hi = 0, len(asserts)
if not unsat(hi):
    print('full set is not unsat'); sys.exit(1)
while lo < hi:
    mid = (lo + hi) // 2
    if unsat(mid): hi = mid
    else: lo = mid + 1
print('shortest unsat prefix:', lo, 'of', len(asserts))
print(asserts[lo-1][:1500])
