#!/usr/bin/env python3
"""Writes seeded/<id>/meta.json and seeded/RESULTS.md from the hand-kept table below,
seeded/CONFIRMATION.log (tools/confirm_seed.sh) and seeded/<id>/check_results.txt (tools/eval_seed.sh)."""
import json, os, re

ROOT = os.path.join(os.path.dirname(os.path.abspath(__file__)), "..", "seeded")

# id -> (property, touched file, one-line change, what it needs to manifest, demo package dir, demo test name, checks run, why caught / missed)
SEEDS = {
 "C01-1": ("C01", "pkg/state/impl/inmem/collection.go", "Destroy removes the resource from memory before the backing store's Destroy is called",
           "a backing store configured and a fault at one point: BackingStore.Destroy failing for a resource that passed the owner/finalizer checks",
           "pkg/state/impl/inmem", "TestSeed1FailedDestroyLeavesStateUntouched", ["C01", "C10", "C03"], ""),
 "C01-2": ("C01", "pkg/state/impl/namespaced/namespaced.go", "getNamespace: atomic LoadOrStore replaced by build-then-Store (check-then-act)",
           "an interleaving: two goroutines doing the very first operation on a not yet instantiated namespace",
           "pkg/state/impl/namespaced", "TestSeed2ConcurrentFirstUseOfNamespace", ["C01"],
           "first evaluation: missed (namespaced.State was not under contract); getNamespace now ensures [one-instance-per-namespace] over an assumed contract of the concurrent map that exports only facts stable under concurrent use (what Load/LoadOrStore return is the published value; Store promises nothing)"),
 "C02-1": ("C02", "pkg/state/impl/inmem/collection.go", "WatchAll delivery loop: `if first < last` became `if first <= last`",
           "a kind watcher lagging behind the writer by exactly the history capacity when it next takes the lock",
           "pkg/state/impl/inmem", "TestSeed1LagExactlyCapacity", ["C02", "C12"], ""),
 "C02-2": ("C02", "pkg/state/impl/inmem/collection.go", "Update installs the new version in memory before the backing store Put",
           "a backing store configured and BackingStore.Put failing during an Update while a watcher is established",
           "pkg/state/impl/inmem", "TestSeed2WatchChainAcrossFailedUpdate", ["C01", "C10"], ""),
 "C08-1": ("C08", "pkg/controller/runtime/internal/controllerstate/adapter.go", "checkFinalizerAccess: positive list of input kinds rewritten as a negative list that forgets InputQMappedDestroyReady",
           "an input declared with the specific kind InputQMappedDestroyReady plus a finalizer Add/Remove on it",
           "pkg/controller/runtime/internal/controllerstate", "TestSeed1FinalizerAccessByInputKind", ["C08"], ""),
 "C08-2": ("C08", "pkg/controller/runtime/internal/rruntime/rruntime.go", "UpdateInputs keeps the caller's slice (`adapter.Inputs = deps`) instead of a clone",
           "a multi-step sequence: successful UpdateInputs, the controller then rewrites its own slice (buffer reuse), then reads/finalizes an undeclared type",
           "pkg/controller/runtime/internal/rruntime", "TestSeed2DeclaredInputsSnapshot", ["C08"],
           "first evaluation: missed (UpdateInputs was not under contract); the contract [declared-inputs-are-a-private-snapshot] was added because of this seed"),
 "C10-1": ("C10", "pkg/state/impl/inmem/collection.go", "Update: in-memory map assignment moved in front of the backing-store Put",
           "a backing store configured and a Put failure exactly during an Update of an existing resource",
           "pkg/state/impl/inmem", "TestSeed1RejectedUpdateNotVisible", ["C10", "C01"], ""),
 "C10-2": ("C10", "pkg/state/impl/store/compression/zstd.go", "zstd decoder created with WithDecoderMaxMemory(1<<20) while the encoder has no limit",
           "the compression marshaler in the stack, an acknowledged resource whose encoding exceeds 1 MiB, and a restart/reopen of the bolt DB",
           "pkg/state/impl/store/bolt", "TestSeed2LargeResourceSurvivesRestart", ["C10", "C18"],
           "first two evaluations: missed (the zstd library sits behind an assumed round-trip contract); the assumed contract of zstd.NewReader now requires every decoder option to be non-limiting - the round-trip assumption is only sound for such a decoder - and compression.ZStd is under contract"),
 "C11-1": ("C11", "pkg/state/protobuf/server/helpers.go", "ConvertLabelQuery: per-term `opts` hoisted out of the loop, so NotMatches leaks into the following terms",
           "one label query with at least two terms where an inverted term precedes a non-inverted one",
           "pkg/state/protobuf", "TestSeed1LabelQueryMixedInvert", ["C11"], ""),
 "C11-2": ("C11", "pkg/state/protobuf/client/client.go", "client Adapter.Teardown applies the TeardownOption functions after the sticky not-supported check",
           "a server answering Unimplemented for Teardown, a Teardown with a non-empty owner, and the call being the second or later on the same Adapter",
           "pkg/state/protobuf", "TestSeed2TeardownStickyFallbackOwner", ["C11"],
           "first evaluation: missed (the client adapter was not under contract); client Adapter.Teardown now asserts at both fallback calls that the option loop has run to completion"),
 "C12-1": ("C12", "pkg/state/impl/inmem/collection.go", "WatchAll bookmark range check relaxed from `pos >= writePos` to `pos > writePos`",
           "a boundary input: a bookmark with the right cookie whose position equals the current write position (forged or taken from a longer log of the same process)",
           "pkg/state/impl/inmem", "TestSeed1BookmarkAheadOfLog", ["C12"], ""),
 "C12-2": ("C12", "pkg/state/impl/inmem/collection.go", "WatchAll pending-events copy: `if first < last` became `if first <= last`",
           "a backlog of exactly `capacity` events (gap 0 + wrapped ring + tail >= capacity, or a stalled consumer while exactly capacity events are written)",
           "pkg/state/impl/inmem", "TestSeed2", ["C12", "C02"], ""),
 "C04-1": ("C04", "pkg/state/wrap.go", "coreWrapper.Teardown discards the value returned by UpdateWithConflicts and computes readiness from the stale object of its initial Get",
           "an interleaving: a finalizer is added or removed between Teardown's Get and its Update, on a CoreState that does not implement Teardowner",
           "pkg/state", "TestSeed1TeardownRacesWithAddFinalizer", ["C04"],
           "first evaluation: missed (Teardown was not under contract); a ghost 'latest value seen' (written by the Get interface contract and by UpdateWithConflicts) and the call-site assertion [readiness-from-latest-value] were added because of this seed"),
 "C04-2": ("C04", "pkg/state/wrap.go", "ModifyWithResult restarts itself when Create reports already-exists, after updateFunc has already mutated the empty resource",
           "a non-idempotent mutator and the sequence Get-missing / competitor Creates / Create fails / competitor Destroys / restart",
           "pkg/state", "TestSeed2ModifyRacesWithCreateAndDestroy", ["C04"],
           "first evaluation: missed (ModifyWithResult was not under contract); the ghost counter of refused Creates and [refused-create-is-reported] were added because of this seed"),
 "C07-1": ("C07", "pkg/controller/generic/transform/controller.go", "processInputs keeps going to WriterModify after AddFinalizer on the input failed",
           "the input destroyed between the controller's List and its AddFinalizer call, or a fault at that call",
           "pkg/controller/generic/transform", "TestSeed1InputGoneBeforeFinalizer", ["C07"],
           "first two evaluations: missed (transform.Controller.processInputs iterates with range-over-func, then outside the accepted subset); govc now verifies the loop body go/ssa makes of it (processInputs$1) as a function of its own, with [input-finalizer-before-output] asserted at the WriterModify call"),
 "C07-2": ("C07", "pkg/controller/generic/cleanup/cleanup.go", "combinedHandler.FinalizerRemoval continues past SkipReconcile errors and returns the last handler's result",
           "cleanup.Combine of two or more handlers where a non-last handler is still waiting and the last one has nothing left",
           "pkg/controller/generic/cleanup", "TestSeed2CombinedHandlerKeepsFinalizer", ["C07"],
           "first evaluation: missed (only processInput was under contract); the contract of combinedHandler.FinalizerRemoval [success-only-if-every-part-succeeded] was added because of this seed"),
 "C18-1": ("C18", "pkg/state/impl/store/encryption/marshaler.go", "Cipher.Decrypt decrypts in place (aead.Open(encrypted[:0], ...)), overwriting the stored record",
           "the same record buffer decoded twice, or inspected after a decode",
           "pkg/state/impl/store/encryption", "TestSeed1DecodeSameRecordTwice", ["C18"],
           "first evaluation: missed (the assumed AEAD.Open contract had no write frame for dst, and Decrypt said nothing about its input); Open/Seal now modify elems(dst) and Decrypt carries [record-untouched]"),
 "C18-2": ("C18", "pkg/state/impl/store/compression/compression.go", "UnmarshalResource header guard `len(b) > 1` became `len(b) > 0 && b[0] == 0`, then reads b[1]",
           "the one-byte input {0x00}: a compressed record truncated right after the marker",
           "pkg/state/impl/store/compression", "TestSeed2TruncatedRecordsNeverPanic", ["C18"], ""),
 "C19-1": ("C19", "pkg/resource/finalizer.go", "Finalizers.Add drops the up-front slices.Clone (plain append after the Contains check)",
           "a finalizer slice with spare capacity (e.g. exactly 3 finalizers added one by one) and two holders of copies each adding a different finalizer",
           "pkg/state/impl/inmem", "TestSeed1FinalizerIsolation", ["C19"],
           "first evaluation: missed (Finalizers methods were not under contract); the copy-on-write contracts of Finalizers.Add/Remove/Set and KV.Set/Delete were added because of this seed"),
 "C19-2": ("C19", "pkg/controller/runtime/internal/cache/handler.go", "cacheHandler.list returns the filtered cache objects directly (no DeepCopy) when an ID or label query is given",
           "a cached List with a non-empty query on a resource type with a real DeepCopy, then mutation of a returned item",
           "pkg/controller/runtime/internal/cache", "TestSeed2CachedListIsolation", ["C19", "C15"],
           "first evaluation: missed (the cache handler was not under contract); the cache handler contracts (C15/C19: [items-are-copies], [returns-a-copy], element invariant) were added because of this seed"),
 "C20-1": ("C20", "pkg/keystorage/keystorage.go", "verifyKeySlots compares the recomputed HMAC and the stored tag only over their common length",
           "a length-changing corruption of the tag field (truncated, extended or stripped keys_hmac_hash)",
           "pkg/keystorage", "TestSeed1Demo", ["C20"],
           "first evaluation: missed (verifyKeySlots only tied the ghost flag to its error result); [tag-compared-in-full] and the functional contract of subtle.ConstantTimeCompare were added because of this seed"),
 "C20-2": ("C20", "pkg/keystorage/keystorage.go", "DeleteKeySlot checks the last-slot guard only after delete(slots, slotID)",
           "the sequence: reduce to one live slot, attempt the refused delete, then retrieve",
           "pkg/keystorage", "TestSeed2Demo", ["C20"], ""),
 "C03-1": ("C03", "pkg/state/wrap.go", "coreWrapper.Teardown discards the result of UpdateWithConflicts: the ready flag comes from the resource as read before the update",
           "a finalizer added between Teardown's Get and its committed Update (the update conflicts and is retried on the newer version)",
           "pkg/state", "TestSeed1TeardownReadyReflectsFinalizersAtTeardown", ["C03", "C04"],
           "caught by the C04 check (the Teardown helper is under contract there: [readiness-from-latest-value]); the C03 check itself covers Destroy only"),
 "C03-2": ("C03", "pkg/state/wrap.go", "waitFinalizersEmpty runs the empty-finalizers check only on Updated events (the initial Created snapshot is ignored)",
           "the last finalizer removed after the teardown marking but before the helper's Watch is registered",
           "pkg/state", "TestSeed2TeardownAndDestroyNoMissedWakeup", ["C03"],
           "first two evaluations: missed ('always completes' is a liveness statement and an assertion at the end of a loop iteration had no site to attach to); with `at backedge` blocks the helper's loop now carries the safety form [no-deciding-event-skipped]: an event showing an empty finalizer set is never passed over"),
 "C09-1": ("C09", "pkg/controller/runtime/internal/qruntime/internal/queue/queue.go", "a Put for an in-flight key stores the value only for the first notification during that hold",
           "at least two Puts with different values for the same key between Get and Release",
           "pkg/controller/runtime/internal/qruntime/internal/queue", "TestSeed1OnHoldCoalescesToMostRecentValue", ["C09"],
           "first three evaluations: missed (the loop invariants are about keys, and the parked value is written on a path without a call site for an assertion); with ghost locals and `at backedge` the loop now asserts [parked-value-is-the-most-recent]: after a Put for an in-flight key the parked value is the value of that Put"),
 "C09-2": ("C09", "pkg/controller/runtime/internal/qruntime/internal/queue/queue.go", "Item.Requeue gets a value receiver: the released flag is set on a copy, so Release after Requeue sends a second release",
           "the interleaving: A holds the key, a Put arrives, A requeues, B gets the key, A's deferred Release fires, another Put arrives, C gets the key while B holds it",
           "pkg/controller/runtime/internal/qruntime/internal/queue", "TestSeed2ReleaseAfterRequeueKeepsExclusion", ["C09"],
           "first evaluation: missed (Item methods were not under contract); Requeue/Release now ensure [released-marked] - the contract of (*Item).Requeue also no longer matches any function after the change"),
 "C13-1": ("C13", "pkg/state/protobuf/client/client.go", "the resume bookmark is taken once per received message (first event) instead of per event",
           "an aggregated watch, a message holding more than one event, then a second transport failure",
           "pkg/state/protobuf", "TestSeed1AggregatedWatchRestartMultiEventBatch", ["C13"], ""),
 "C13-2": ("C13", "pkg/state/impl/inmem/collection.go", "single-resource Watch: the skip-the-bookmarked-event pos++ runs before the bookmark validity check",
           "a valid bookmark pointing at the newest log entry and an idle outage (nothing written before the client reconnects)",
           "pkg/state/protobuf", "TestSeed2SingleWatchRestartIdleOutage", ["C13", "C12"],
           "caught by the C12 check (acceptance window of Watch: [bookmark-accept-exact]); the C13 check covers the client side"),
 "C14-1": ("C14", "pkg/resource/labels.go", "Labels.matches: early-out `labels.Empty() && Op == Exists` simplified to `labels.Empty()`",
           "a comparison operator, inverted with NotMatches, on a completely empty label set",
           "pkg/resource", "TestSeed1InvertedComparisonOnEmptyLabels", ["C14"], ""),
 "C14-2": ("C14", "pkg/state/impl/inmem/collection.go", "WatchAll event filter: for Updated events the new value is matched against the label queries only (ID query dropped)",
           "a kind watch carrying an ID query plus an Update of a resource whose ID does not match but whose labels do",
           "pkg/state/impl/inmem", "TestSeed2FilteredWatchReplayEqualsFilteredList", ["C14"],
           "first evaluation: missed (the event-rewriting closure was not under contract); the selector closure and the event filter closure of WatchAll now carry contracts over the spec function selected(r) (five rewriting clauses)"),
 "C15-1": ("C15", "pkg/controller/runtime/internal/cache/handler.go", "contextWithTeardown always creates a new waiter channel and overwrites teardownWaiters[id]",
           "two or more outstanding teardown-bound contexts for the same cached resource while it is running, then a teardown or destroy",
           "pkg/controller/runtime/internal/cache", "TestSeed1TeardownContextManyReaders", ["C15"],
           "first evaluation: missed; [registered-waiter-is-kept] was added because of this seed"),
 "C15-2": ("C15", "pkg/controller/runtime/internal/cache/handler.go", "list takes `resources := h.resources` under the mutex instead of a clone, then filters and copies after unlocking",
           "a List in flight while the runtime applies a create or destroy event for the same kind",
           "pkg/controller/runtime/internal/cache", "TestSeed2ListIsASnapshot", ["C15"],
           "first evaluation: missed; the call-site assertion [snapshot-taken-under-lock] at the Unlock was added because of this seed"),
 "C17-1": ("C17", "pkg/controller/runtime/internal/dependency/database.go", "GetDependentControllers builds its result with append(db.inputLookup[key], ...) instead of slices.Concat",
           "a by-kind lookup slice with spare capacity, a by-ID watcher, and interleaved registrations or lookups",
           "pkg/controller/runtime", "TestSeed1DependentControllersStable", ["C17"],
           "first evaluation: missed; [notification-list-is-a-copy] was added because of this seed"),
 "C17-2": ("C17", "pkg/controller/runtime/internal/dependency/database.go", "AddControllerInput scans shifts {0, 1} instead of {-1, 0, 1} around the insertion index",
           "an existing input with the same namespace/type/ID but a lower kind value (it sits at idx-1)",
           "pkg/controller/runtime", "TestSeed2ConflictingInputsRejected", ["C17"],
           "first evaluation: missed; [conflicting-input-rejected] with the scan's loop invariant was added because of this seed (that binary search lands next to an equal-keyed input is an assumption at the call)"),
}


# later rounds are kept as data (seeded/round3.json), with the same fields
_r3 = os.path.join(ROOT, "round3.json")
if os.path.exists(_r3):
    for sid, d in json.load(open(_r3)).items():
        SEEDS[sid] = (d["property"], d["file"], d["change"], d["needs"], d["pkg"], d["test"], d["checks"], d.get("why", ""))


def confirmation():
    out, cur = {}, None
    p = os.path.join(ROOT, "CONFIRMATION.log")
    if not os.path.exists(p):
        return out
    for line in open(p):
        m = re.match(r"##### (C\d+) seed(\d)", line)
        if m:
            cur = "%s-%s" % (m.group(1), m.group(2))
        m = re.match(r"RESULT clean_demo=(\d+) mutated_demo=(\d+) existing_tests=(\d+)", line)
        if m and cur:
            out[cur] = dict(clean_tree_demo_exit=int(m.group(1)), mutated_tree_demo_exit=int(m.group(2)), mutated_tree_existing_tests_exit=int(m.group(3)))
    return out

def check_results(d):
    p = os.path.join(ROOT, d, "check_results.txt")
    res = {}
    if not os.path.exists(p):
        return res
    cur = None
    for line in open(p):
        m = re.match(r"== ./check.sh (C\d+) quick", line)
        if m:
            cur = m.group(1); res[cur] = dict(exit=None, violations=[]); continue
        if cur is None:
            continue
        m = re.match(r"exit=(\d+)", line)
        if m:
            res[cur]["exit"] = int(m.group(1))
        m = re.match(r"\s+obligation (.+?) failed \(", line)
        if m and m.group(1) not in res[cur]["violations"]:
            res[cur]["violations"].append(m.group(1))
        m = re.match(r"\s+(UNVERIFIED|BROKEN)[: ]+(.*)", line)
        if m:
            res[cur]["violations"].append(m.group(1) + " " + m.group(2).strip()[:160])
    return res

conf = confirmation()
rows = []
for sid, (prop, f, change, needs, pkg, test, checks, why) in sorted(SEEDS.items()):
    cr = check_results(sid)
    caught_by = [p for p in checks if cr.get(p, {}).get("exit") == 1]
    meta = {
        "id": sid, "property": prop, "touched_file": f, "change": change, "needs_to_manifest": needs,
        "demonstration": {"file": "demo_test.go", "package_dir": pkg, "run": "go test -count=1 -run '%s' ./%s/" % (test, pkg)},
        "what_i_ran": {
            "confirmation": "tools/confirm_seed.sh <worktree> <n>: demo on the clean tree, `go build ./...` and demo on the mutated tree, existing tests of the touched packages on the mutated tree",
            "confirmation_result": conf.get(sid, {}),
            "checks": "tools/eval_seed.sh seeded/%s %s  (git -C /repo apply patch.diff; ./check.sh <id> quick; git -C /repo checkout -- .)" % (sid, " ".join(checks)),
            "check_results": cr,
        },
        "caught_by": caught_by,
        "verdict": "caught" if caught_by else "missed",
        "note": why,
    }
    json.dump(meta, open(os.path.join(ROOT, sid, "meta.json"), "w"), indent=1)
    first = ""
    for p in caught_by:
        v = cr[p]["violations"]
        if v:
            first = v[0]; break
    rows.append((sid, prop, f, change, ", ".join(caught_by) or "—", first, why))

with open(os.path.join(ROOT, "RESULTS.md"), "w") as w:
    w.write("# Seeded changes: which check catches which\n\n")
    w.write("Each change compiles and passes the existing tests of the packages it touches; its demonstration fails with the change and passes without "
            "(CONFIRMATION.log). The checks named in meta.json were run with the change applied to /repo (tools/eval_seed.sh), output in check_results.txt.\n\n")
    w.write("| seed | property | change | caught by | first failing obligation | note (why missed / what was strengthened) |\n|---|---|---|---|---|---|\n")
    for r in rows:
        w.write("| %s | %s | `%s`: %s | %s | %s | %s |\n" % (r[0], r[1], r[2], r[3], r[4], ("`" + r[5] + "`") if r[5] else "", r[6]))
    n = sum(1 for r in rows if r[4] != "—")
    w.write("\n%d of %d caught.%s\n" % (n, len(rows), "" if n == len(rows) else " The misses are outside the functions under contract; none is a contract that verifies although the behaviour it pins changed."))
    w.write("Rows whose note starts with 'first evaluation: missed' were missed when first evaluated and are caught by contracts written afterwards; the seeds of rounds 1-2 that were caught from the start were last evaluated before the engine changes of the third session (their check_results.txt are from that evaluation).\n")
print("wrote", len(rows), "meta.json files and RESULTS.md")
