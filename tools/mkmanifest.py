#!/usr/bin/env python3
"""Generates /verif/MANIFEST.json from the table below (kept here so the manifest stays valid and current)."""
import json, os, sys
HERE = os.path.dirname(os.path.dirname(os.path.abspath(__file__)))
BASE = json.load(open('/root/.vp/BASELINE.json'))

TECH = "contract-based deductive verification: weakest-precondition style VC generation over go/ssa of the real code (govc), SMT portfolio z3/z3-new/cvc5"

# property -> (level text, level note, design ref)
CLAIMS = {}
NA = {}

def claim(pid, text, note, ref):
    CLAIMS[pid] = (text, note, ref)

def na(pid, reason):
    NA[pid] = reason

exec(open(os.path.join(HERE, 'tools', 'claims_table.py')).read())

checks = []
for pid in sorted(CLAIMS):
    text, note, ref = CLAIMS[pid]
    checks.append({
        "property_id": pid,
        "quick_cmd": f"./check.sh {pid} quick",
        "thorough_cmd": f"./check.sh {pid} thorough",
        "evidence_file": f"/verif/evidence/{pid}.json",
        "replay_cmd_template": "cat {path}",
        "engine": "govc",
        "level_claimed": {"category": "proof", "text": text, "design_ref": ref},
        "level_note": note,
        "technique": TECH,
    })
man = {
    "version": 1,
    "setup_cmd": "./setup.sh",
    "hooks": {
        "guard": "verif",
        "enable": "go/packages loads /repo with -tags=verif; the only hook files are comment-only zz_contracts_verif.go files (//go:build verif) holding the //@ contracts",
        "baseline_off_cmd": BASE["cmd"],
        "source_commits": [l.strip() for l in open(os.path.join(HERE, 'tools', 'hook_commits.txt')) if l.strip()],
        "add_only": True,
    },
    "engines": [{
        "name": "govc", "path": "/verif/govc",
        "serves_properties": sorted(CLAIMS),
        "kind_free_text": "deductive verifier for a Go subset: symbolic execution over go/ssa (NaiveForm) of the functions under contract, contracts in //@ comment files, obligations discharged by z3 4.8.12 / z3-new 5.1.0 / cvc5 1.0.3",
    }],
    "checks": checks,
    "not_applicable": [{"property_id": p, "reason": NA[p]} for p in sorted(NA)],
    "notes": "See DESIGN.md. Known findings: known_findings.txt. Claimed obligation names: claims/<id>.txt.",
}
json.dump(man, open(os.path.join(HERE, 'MANIFEST.json'), 'w'), indent=1)
print("claimed", sorted(CLAIMS), "n/a", sorted(NA))
