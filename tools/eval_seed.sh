#!/bin/bash
# usage: eval_seed.sh <seeded dir> <property> [<property> ...]
# Applies the seeded change to /repo, runs the given checks (quick), reverts the change.
cd "$(dirname "$0")/.."
D=$1; shift
git -C /repo diff --quiet || { echo "/repo working tree not clean"; exit 2; }
git -C /repo apply "$(readlink -f $D/patch.diff)" || { echo "patch does not apply"; exit 2; }
OUT=$D/check_results.txt
: > $OUT
# the checks below rewrite evidence/<id>.json with results for the CHANGED tree: keep the clean ones
EVSAVE=$(mktemp -d); cp -a evidence/. "$EVSAVE"/
for P in "$@"; do
  echo "== ./check.sh $P quick (with the seeded change applied)" >> $OUT
  ./check.sh $P quick > /tmp/eval_seed_$$.log 2>&1
  echo "exit=$?" >> $OUT
  grep -E "^VIOLATION|^  obligation|^  UNVERIFIED|^property|^KNOWN" /tmp/eval_seed_$$.log | cut -c1-400 >> $OUT
done
rm -f /tmp/eval_seed_$$.log
rm -rf evidence; mkdir -p evidence; cp -a "$EVSAVE"/. evidence/; rm -rf "$EVSAVE"
git -C /repo checkout -- .
git -C /repo diff --quiet && echo "reverted" >> $OUT
cat $OUT
